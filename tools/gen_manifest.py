#!/usr/bin/env python3
"""Regenerates /verif/MANIFEST.json from the table below (kept valid against the schema)."""
import json
import os
import sys

HERE = os.path.dirname(os.path.dirname(os.path.abspath(__file__)))

TECH = ('symbolic execution of the rustc MIR of the shipping functions (mirsym) with z3 deciding every path; '
        'witnesses and sampled passing paths replayed natively')

NOTE = ('Bounded: geometries, lengths and parameter ranges as stated in the evidence file (coverage.bounds / '
        'outside_claim). Trusted: rustc MIR dump, mirsym MIR semantics + library summaries (validated against the real '
        'crate on every run), generator-rs yield/send semantics, std/hashbrown/encoding_rs/unicode-* internals, z3.')

CLAIMED = {
    'C05': ('4 C05', 'Every path of the cursor-motion functions and of csi_dispatch for the motion finals is decided by z3 '
            'against closed-form clamping rules with the geometry itself symbolic (1..=300 x 1..=300), so one query covers '
            'every (geometry, cursor, margins, DECOM, parameter) combination inside the bounds; the same finals are also run end '
            'to end through Parser<Screen> with symbolic parameter digits (an omitted number arrives as 0), also right after an '
            'aborted or skipped CSI.'),
    'C07': ('4 C07', 'ED/EL/ECH run from a symbolic pre-state (every cell/row present or absent, symbolic renditions, '
            'cursor at every position) with the selector/count symbolic over absent|0..=9999; the post-grid is compared '
            'cell by cell with the documented range by z3; also through csi_dispatch and end to end through the recogniser, '
            'and on sparsely written remote screens (9x6; thorough up to 258 columns / rows).'),
    'C06': ('4 C06', 'index/reverse_index/linefeed/IL/DL run from symbolic pre-states whose every row is present or absent '
            'with distinct markers, every region and cursor row, symbolic counts; z3 compares each post row with the '
            'documented shifted/blank/untouched source row and that nothing survives in storage beyond the screen; the same '
            'operations as the recogniser delivers them (ESC D/M/E, LF/VT/FF, CSI L/M), the autowrap scroll for narrow and wide characters, and tall remote screens '
            '(2x9; thorough up to 258 rows). DECSTBM is decided on a symbolic geometry in closed form.'),
    'C13': ('4 C13', 'ICH/DCH single steps against the list-splice rule, plus two-step (thorough three-step) edit '
            'sequences over {ICH,DCH,EL,ECH,draw,IRM-draw,resize} whose last step must obey the rule relative to what was '
            'visible before it, which is what makes a reappearing discarded cell a solver witness; CSI @ / CSI P end to end; '
            'wide remote rows (9 columns; thorough 17 and 258).'),
    'C04': ('4 C04', 'draw of one character of each width class from symbolic pre-states against a reference placement '
            'semantics; strings are lifted by a relational check (one call == one call per character) decided by z3 '
            'over two runs of the implementation; one fully symbolic code point per width class (class decided by the real '
            'unicode-width table) must be stored unchanged; remote screens (9x6; thorough up to 258 columns / rows).'),
    'C09': ('4 C09', 'Inductive: the well-formedness statement is established by Screen::new for symbolic sizes and preserved '
            'by every listener method, resize (symbolic target sizes) and display from an arbitrary symbolic well-formed '
            'state; each clause is a separate solver query per path; the geometry-dependent operations are repeated on a '
            'sparsely written 9x6 (thorough + 17x9) screen.'),
    'C17': ('4 C17', 'For every operation of the sweep from a symbolic state with a just-cleared dirty set, z3 decides that '
            'every row whose observable cells changed is in the dirty set, that screen-wide operations mark all rows, and '
            'that no index outside the screen is present, also for resize followed by a further operation and on a sparsely '
            'written 9x6 (thorough + 17x9) screen.'),
    'C10': ('4 C10', 'display() output against a reference rendering over every arrangement of narrow/wide/placeholder/'
            'combining/absent cells; purity as a relational lemma decided by z3 over two runs of every operation from '
            'states that differ only in an arbitrary symbolic set of materialised blanks (what display() does): the two '
            'results must agree on everything observable and on what is kept in storage beyond the screen.'),
    'C14': ('4 C14', 'save_cursor/restore_cursor single steps with a symbolic stack (depth 0..2, symbolic saved positions, '
            'renditions, charset state, DECOM/DECAWM) on a symbolic geometry; z3 decides exact-copy push, LIFO pop, '
            'clamping into screen and region, one-way re-enabling of DECOM/DECAWM, and that every other operation leaves '
            'the stack untouched (induction gives nested pairs); deep stacks of 15..256 (thorough up to 1025) entries.'),
    'C15': ('4 C15', 'reset() from an arbitrary symbolic state is compared field for field with Screen::new executed in the '
            'same engine (concrete geometries and a symbolic one); a relational non-interference query per operation '
            'shows the saved-cursor stack is read only by restore_cursor.'),
    'C16': ('4 C16', 'resize to symbolic target sizes from symbolic states against the crop/extend rule on the observable '
            'grid, plus two-step sequences (an edit or a resize, then a resize) whose second step is judged relative to '
            'what was visible, so hidden cells/rows that reappear on growth are solver witnesses; the DECCOLM 132-column round '
            'trip incl. a stale remembered width and from screens of 133 and 256 (thorough 131..512) columns; remote '
            'sizes around the 8-bit boundary, one dimension at a time.'),
    'C18': ('4 C18', 'HT/HTS/TBC and the default stops decided on a symbolic width 1..=300 with up to three symbolic stops '
            '(stale stops beyond the width included); the sort and scan of tab() are executed symbolically; resize leaves '
            'the stop set untouched.'),
    'C08': ('4 C08', 'select_graphic_rendition (API and CSI m) with symbolic codes against an independent left-to-right '
            'fold with its own xterm palette formula; every attribute field is a separate solver query; a character '
            'drawn afterwards (narrow, and both cells of a wide one) must carry exactly the folded rendition; recogniser-level '
            'jobs show that parameters of an aborted or skipped CSI do not leak into a later CSI n m.'),
    'C12': ('4 C12', 'set_mode/reset_mode with lists of symbolic mode numbers and a symbolic private flag from symbolic '
            'states; z3 decides the resulting mode set for an arbitrary probe number and every documented side effect '
            '(132-column switch executed for real, homing, reverse video on every cell, visibility), plus the DECCOLM '
            'round trip, also from never-written screens wider than 132 (133, 256; thorough 131..512) columns, and a '
            'sparsely written 9x6 screen.'),
    'C20': ('4 C20', 'The four 256-entry tables are compared with independently transcribed tables by one solver query per '
            'table over a symbolic index; draw of a symbolic code point is compared with the reference translation for '
            'every G0/G1 designation and shift state; SO/SI/designation through the API and the recogniser.'),
    'C02': ('4 C02', 'Relational and model-free: the same symbolic characters/bytes are fed in one call and cut at every '
            'position into two (thorough three) calls to two instances of the real recogniser / byte parser inside one '
            'engine run; z3 decides equality of listener events, recogniser position and flag, characters handed on and '
            'decoder carry-over on every joint path; induction over the number of cuts gives all partitions.'),
    'C03': ('4 C03', 'The shipping recogniser closure is executed from its MIR as a coroutine in lock-step with a reference '
            'recogniser written from the grammar, on unconstrained symbolic code points (classes emerge from the forks), '
            'one sequence from ground state with ground-state pruning plus a concrete probe, and shaped deep families; '
            'event lists (operation, parameters, private flag, text) are compared by z3 per joint path.'),
    'C11': ('4 C11', 'ByteParser::feed executed from MIR on fully symbolic bytes for every composition into chunks and mode-'
            'switch plans; the characters it hands to the recogniser are compared by z3 with an independent byte-at-a-'
            'time UTF-8 automaton over the concatenation; the encoding_rs summary is validated against the real crate on '
            '54k byte strings at start-up and every sampled path natively.'),
    'C19': ('4 C19', 'Parser<Screen> on OSC strings with a symbolic code character and unconstrained symbolic payload characters '
            'for both introducers and all three terminators (and embedded ESC x pairs, empty payload, every cut): z3 '
            'decides title/icon == payload exactly and that nothing else differs from drawing the trailing character alone; '
            'two strings in a row (also with a full reset between them) show that nothing leaks from one into the next.'),
    'C01': ('4 C01', 'Every panic edge of the MIR (overflow asserts, index/unwrap/expect, explicit panics, mutex re-lock) and '
            'the step budget are path outcomes; z3 shows none is feasible (a) for every listener method, resize and '
            'display from arbitrary symbolic well-formed states, with well-formedness re-established (induction over '
            'histories; also the DECCOLM switches on never-written screens of 132..256 (thorough ..512) columns and the '
            'geometry-dependent operations on a sparsely written 9x6 screen), (b) for the real recogniser+dispatchers+Screen on symbolic character strings and (c) for the real '
            'byte parser on symbolic bytes in every chunking; display() and further input are executed on every path.'),
}

ALL = ['C%02d' % i for i in range(1, 21)]


def main():
    props = {}
    with open(os.path.join(HERE, 'properties.jsonl')) as f:
        for l in f:
            p = json.loads(l)
            props[p['id']] = p
    checks = []
    for pid in ALL:
        if pid not in CLAIMED:
            continue
        ref, text = CLAIMED[pid]
        checks.append({
            'property_id': pid,
            'quick_cmd': './check %s --tier quick' % pid,
            'thorough_cmd': './check %s --tier thorough' % pid,
            'evidence_file': '/verif/evidence/%s.json' % pid,
            'replay_cmd_template': './check %s --replay {path}' % pid,
            'engine': 'mirsym',
            'level_claimed': {'category': 'model_checking', 'text': text, 'design_ref': 'DESIGN.md section ' + ref},
            'level_note': NOTE,
            'technique': TECH,
        })
    na = [{'property_id': p, 'reason': 'not claimed'}
          for p in ALL if p not in CLAIMED]
    m = {
        'version': 1,
        'setup_cmd': './setup.sh',
        'hooks': {'guard': 'memterm_verif',
                  'enable': 'none needed: the engine reads the rustc MIR of the unmodified crate and all Screen fields are pub',
                  'baseline_off_cmd': 'cd /repo && cargo test --workspace --no-fail-fast --offline',
                  'source_commits': [], 'add_only': True},
        'engines': [{'name': 'mirsym', 'path': '/verif/mirsym',
                     'serves_properties': [c['property_id'] for c in checks],
                     'kind_free_text': 'MIR symbolic executor (Python) + z3; native replay binary mt-replay (/verif/replay)'}],
        'checks': checks,
        'notes': 'Exit 0 = all explored paths unsat for the negated property; exit 1 = natively reproduced witness; '
                 'exit 2 = inconclusive (unmodelled callee, solver unknown, engine/native disagreement). '
                 'Genuine defects of the pinned tree were repaired by fix: commits in /repo (see known_findings.json).',
        'not_applicable': na,
    }
    with open(os.path.join(HERE, 'MANIFEST.json'), 'w') as f:
        json.dump(m, f, indent=1)
    print('claimed', [c['property_id'] for c in checks])


if __name__ == '__main__':
    main()
