import subprocess, re
p = '/verif/DESIGN.md'
s = open(p).read()
# seeded table
t = subprocess.run(['python3', '/verif/tools/seeded.py', 'table'], stdout=subprocess.PIPE, text=True).stdout.strip('\n')
i = s.index('| seeded change | breaks |')
j = s.index('\n\n', i)
s = s[:i] + t + s[j:]
# cost table
c = subprocess.run(['python3', '/verif/tools/cost_table.py'], stdout=subprocess.PIPE, text=True).stdout
tab, _, tot = c.partition('\ntotal wall:')
i = s.index('| property | jobs | symbolic paths |')
j = s.index('\n\n', i)
s = s[:i] + tab.strip('\n') + s[j:]
open(p, 'w').write(s)
print('seeded rows', t.count('\n') - 1, 'total wall', tot.strip())
