#!/usr/bin/env python3
"""Print the DESIGN.md 10.6 table from the evidence files of the last quick run."""
import json, os
HERE = os.path.dirname(os.path.dirname(os.path.abspath(__file__)))
print('| property | jobs | symbolic paths | solver queries | native replays that agreed | queries re-decided by cvc5 + z3 4.8 | wall s (16 cores) |')
print('|---|---|---|---|---|---|---|')
tot = 0
for i in range(1, 21):
    p = 'C%02d' % i
    d = json.load(open(os.path.join(HERE, 'evidence', p + '.json')))
    c = d['coverage']
    print('| %s | %s | %s | %s | %s | %s | %d |' % (p, c.get('jobs'), c.get('symbolic_paths_explored'), c.get('solver_queries'),
          c.get('native_replays_of_passing_paths'), c.get('queries_cross_checked_with_cvc5_and_z3_4_8_12'), round(d.get('wall_s', 0))))
    tot += d.get('wall_s', 0)
print('\ntotal wall: %d s' % tot)
