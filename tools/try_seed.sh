#!/bin/bash
# tools/try_seed.sh <seed-id | patch file> <check args...>: run a check against a scratch worktree of /repo with the
# seeded change applied (never touches /repo).  Worktree and cache live under /tmp/try and can be removed at will.
id=$1; shift
WT=/tmp/try/wt
mkdir -p /tmp/try
[ -d $WT ] || git -C /repo worktree add -q --detach $WT HEAD
git -C $WT checkout -q --detach "$(git -C /repo rev-parse HEAD)" && git -C $WT checkout -- .
patch=/verif/seeded/$id/patch.diff; [ -f "$id" ] && patch=$id
git -C $WT apply $patch || exit 3
cd /verif && MEMTERM_REPO=$WT MIRSYM_CACHE=/tmp/try/cache ./check "$@"
rc=$?
git -C $WT checkout -- .
exit $rc
