#!/usr/bin/env python3
"""Run the quick checks related to each behaviour-preserving refactoring under /verif/neutral/<id>/.

  tools/neutral.py run <id>|all      # in a scratch worktree of /repo (never touches /repo)
  tools/neutral.py table             # markdown table of the recorded results

Expected: exit 0 for every (patch, property).  exit 2 = a library summary is missing (to be added),
exit 1 = false alarm (the check is to be corrected)."""
import json
import os
import subprocess
import sys
import time

VERIF = os.path.dirname(os.path.dirname(os.path.abspath(__file__)))
NEUTRAL = os.path.join(VERIF, 'neutral')
WT = '/tmp/neutral-run/wt'
CACHE = '/tmp/neutral-run/cache'

# which properties are anchored in the functions each area touches
PROPS = {'N01': 'C04 C20 C09 C06 C01', 'N02': 'C07 C17 C09', 'N03': 'C06 C09 C17', 'N04': 'C13 C04 C09',
         'N05': 'C16 C15 C09 C18', 'N06': 'C12 C14 C15', 'N07': 'C03 C19 C05 C08 C01', 'N08': 'C11 C02 C08',
         'N09': 'C18 C05 C14 C09', 'N10': 'C10 C20 C15 C03'}


def sh(cmd, **kw):
    return subprocess.run(cmd, shell=True, stdout=subprocess.PIPE, stderr=subprocess.STDOUT, text=True, **kw)


def ensure_wt():
    if not os.path.isdir(WT):
        os.makedirs(os.path.dirname(WT), exist_ok=True)
        r = sh('git -C /repo worktree add -q --detach %s HEAD' % WT)
        assert r.returncode == 0, r.stdout
    sh('git -C %s checkout -q --detach $(git -C /repo rev-parse HEAD) && git -C %s checkout -- .' % (WT, WT))


def run_one(nid):
    d = os.path.join(NEUTRAL, nid)
    ensure_wt()
    r = sh('git -C %s apply %s' % (WT, os.path.join(d, 'patch.diff')))
    if r.returncode != 0:
        return {'error': 'patch does not apply: ' + r.stdout[-300:]}
    res = {}
    try:
        for p in PROPS[nid[:3]].split():
            t = time.time()
            r = sh('cd %s && MEMTERM_REPO=%s MIRSYM_CACHE=%s timeout 3000 ./check %s --tier quick' % (VERIF, WT, CACHE, p))
            lines = r.stdout.strip().splitlines()
            prob = [l for l in lines if l.startswith('INCONCLUSIVE') or l.startswith('VIOLATION')]
            res[p] = {'exit': r.returncode, 'wall_s': round(time.time() - t, 1), 'first_problem': prob[0][:300] if prob else ''}
    finally:
        sh('git -C %s checkout -- .' % WT)
    head = sh('git -C %s rev-parse --short HEAD' % VERIF).stdout.strip()
    out = {'id': nid, 'results': res, 'verif_commit': head}
    json.dump(out, open(os.path.join(d, 'result.json'), 'w'), indent=1)
    return out


def ids():
    return sorted(x for x in os.listdir(NEUTRAL) if os.path.isdir(os.path.join(NEUTRAL, x)))


def table():
    print('| refactoring | functions | rewritten with | checks run (exit) |')
    print('|---|---|---|---|')
    for nid in ids():
        d = os.path.join(NEUTRAL, nid)
        meta = json.load(open(os.path.join(d, 'meta.json')))
        rp = os.path.join(d, 'result.json')
        res = json.load(open(rp))['results'] if os.path.exists(rp) else {}
        fn = ', '.join(meta.get('functions', []))[:90]
        summ = ' '.join(str(meta.get('summary', '')).split())[:150].replace('|', '/')
        print('| %s | %s | %s | %s |' % (nid, fn.replace('|', '/'), summ, ', '.join('%s:%s' % (p, v['exit']) for p, v in res.items()) or 'not run'))


if __name__ == '__main__':
    if len(sys.argv) < 2:
        print(__doc__)
        sys.exit(2)
    if sys.argv[1] == 'table':
        table()
        sys.exit(0)
    which = ids() if sys.argv[2] == 'all' else [sys.argv[2]]
    for nid in which:
        print(json.dumps(run_one(nid)), flush=True)
