#!/bin/bash
# tools/run_all.sh [quick|thorough] [seed]  -- run every registered check once, print one line per property
cd "$(dirname "$0")/.."
tier=${1:-quick}
export VERIF_SEED=${2:-0}
mkdir -p .cache/logs
for p in $(python3 -c "import json; print(' '.join(c['property_id'] for c in json.load(open('MANIFEST.json'))['checks']))"); do
  s=$(date +%s)
  ./check $p --tier $tier > .cache/logs/$p.$tier.log 2>&1
  rc=$?
  e=$(date +%s)
  echo "$p tier=$tier seed=$VERIF_SEED exit=$rc wall=$((e-s))s $(tail -1 .cache/logs/$p.$tier.log | cut -c1-160)"
done
