#!/usr/bin/env python3
"""Run the registered checks against the seeded changes under /verif/seeded/<id>/.

  tools/seeded.py run <id>|all [--props C05,C01] [--tier quick]
  tools/seeded.py table                 # markdown table of recorded results

Each change is applied to /repo (git apply), the check(s) run, and the change is undone straight
afterwards (git checkout -- .).  Nothing is ever committed to /repo."""
import json
import os
import subprocess
import sys
import time

VERIF = os.path.dirname(os.path.dirname(os.path.abspath(__file__)))
SEEDED = os.path.join(VERIF, 'seeded')
REPO = os.environ.get('MEMTERM_REPO', '/repo')


def sh(cmd, **kw):
    return subprocess.run(cmd, shell=True, stdout=subprocess.PIPE, stderr=subprocess.STDOUT, text=True, **kw)


def repo_clean():
    r = sh('git -C %s status --porcelain -- src Cargo.toml' % REPO)
    return r.stdout.strip() == ''


def run_one(sid, props=None, tier='quick'):
    d = os.path.join(SEEDED, sid)
    meta = json.load(open(os.path.join(d, 'meta.json')))
    props = props or [meta['property']]
    assert repo_clean(), '/repo has local changes'
    r = sh('git -C %s apply %s' % (REPO, os.path.join(d, 'patch.diff')))
    if r.returncode != 0:
        return {'error': 'patch does not apply: ' + r.stdout[-300:]}
    res = {}
    try:
        for p in props:
            t = time.time()
            r = sh('cd %s && timeout 3000 ./check %s --tier %s' % (VERIF, p, tier))
            viol = [l for l in r.stdout.splitlines() if l.startswith('VIOLATION')]
            labels = [l.strip() for l in r.stdout.splitlines() if l.strip().startswith('job=')]
            res[p] = {'exit': r.returncode, 'violations': len(viol), 'first': labels[:3],
                      'wall_s': round(time.time() - t, 1),
                      'tail': r.stdout.strip().splitlines()[-1][:300] if r.stdout.strip() else ''}
    finally:
        sh('git -C %s checkout -- .' % REPO)
    assert repo_clean()
    head = sh('git -C %s rev-parse --short HEAD' % VERIF).stdout.strip()
    out = {'id': sid, 'tier': tier, 'results': res, 'caught_by': [p for p, v in res.items() if v['exit'] == 1],
           'verif_commit': head}
    rp = os.path.join(d, 'result.json')
    allr = json.load(open(rp)) if os.path.exists(rp) else {}
    cur = allr.get('current', {'results': {}, 'caught_by': []})
    cur['results'].update(res)
    cur['caught_by'] = sorted(p for p, v in cur['results'].items() if v['exit'] == 1)
    cur['verif_commit'] = head
    allr['current'] = cur
    json.dump(allr, open(rp, 'w'), indent=1)
    return cur


def table():
    rows = []
    for sid in sorted(os.listdir(SEEDED)):
        d = os.path.join(SEEDED, sid)
        if not os.path.isdir(d):
            continue
        meta = json.load(open(os.path.join(d, 'meta.json')))
        rp = os.path.join(d, 'result.json')
        allr = json.load(open(rp)) if os.path.exists(rp) else {}
        r1 = allr.get('round1', {}) or allr.get('round2_run', {}) or allr.get('round3_first', {}) or {}
        cur = allr.get('current', {})
        results = dict(r1.get('results', {}))
        results.update(cur.get('results', {}))
        res = {'results': results, 'caught_by': sorted(p for p, v in results.items() if v['exit'] == 1)}
        caught = ', '.join(res.get('caught_by', [])) or ('-' if results else 'not run')
        first = ', '.join('%s:%s' % (p, v['exit']) for p, v in r1.get('results', {}).items())
        ran = first + (' -> now ' + ', '.join('%s:%s' % (p, v['exit']) for p, v in cur.get('results', {}).items()) if cur else '')
        rows.append('| %s | %s | %s | %s | %s |' % (sid, meta['property'], meta.get('summary', '')[:110].replace('|', '/'),
                                                   caught, ran))
    print('| seeded change | breaks | what was changed | caught by | checks run (exit) |')
    print('|---|---|---|---|---|')
    print('\n'.join(rows))


# --------------------------------------------------------------------------- import of a candidate after own confirmation

def confirm_and_import(src_dir, sid):
    """src_dir holds patch.diff, demo.rs, meta.json written by a sub-agent.  Confirm in a scratch
    worktree that (1) the demo passes on the unchanged tree, (2) with the patch the crate compiles, the
    91 unit tests pass and the demo fails; then copy into /verif/seeded/<sid>/."""
    import shutil
    wt = '/tmp/seedv/wt'
    if not os.path.isdir(wt):
        os.makedirs('/tmp/seedv', exist_ok=True)
        r = sh('git -C %s worktree add -q --detach %s HEAD' % (REPO, wt))
        assert r.returncode == 0, r.stdout
    sh('git -C %s checkout -q --detach %s && git -C %s checkout -- . && git -C %s clean -fdq -- tests' % (
        wt, sh('git -C %s rev-parse HEAD' % REPO).stdout.strip(), wt, wt))
    os.makedirs(os.path.join(wt, 'tests'), exist_ok=True)
    shutil.copy(os.path.join(src_dir, 'demo.rs'), os.path.join(wt, 'tests', 'demo_seed.rs'))
    rec = {}
    r = sh('cd %s && cargo test --offline --test demo_seed 2>&1 | tail -15' % wt)
    rec['demo_on_unchanged_tree'] = 'pass' if 'test result: ok' in r.stdout else 'FAIL'
    ra = sh('git -C %s apply %s' % (wt, os.path.join(src_dir, 'patch.diff')))
    if ra.returncode != 0:
        rec['patch'] = 'does not apply: ' + ra.stdout[-200:]
    else:
        r1 = sh('cd %s && cargo test --offline --lib 2>&1 | grep -E "^test result|^error" | head -3' % wt)
        rec['unit_tests_with_patch'] = r1.stdout.strip()
        r2 = sh('cd %s && cargo test --offline --test demo_seed 2>&1 | tail -15' % wt)
        rec['demo_with_patch'] = 'FAILS (as required)' if ('test result: FAILED' in r2.stdout or 'panicked' in r2.stdout) else 'passes'
    sh('git -C %s checkout -- . && git -C %s clean -fdq -- tests' % (wt, wt))
    ok = (rec.get('demo_on_unchanged_tree') == 'pass' and '91 passed; 0 failed' in rec.get('unit_tests_with_patch', '')
          and rec.get('demo_with_patch', '').startswith('FAILS'))
    rec['confirmed'] = ok
    if ok:
        d = os.path.join(SEEDED, sid)
        os.makedirs(d, exist_ok=True)
        shutil.copy(os.path.join(src_dir, 'patch.diff'), os.path.join(d, 'patch.diff'))
        shutil.copy(os.path.join(src_dir, 'demo.rs'), os.path.join(d, 'demo.rs'))
        meta = json.load(open(os.path.join(src_dir, 'meta.json')))
        meta['confirmed_by_me'] = rec
        meta['what_i_ran'] = ('scratch worktree of /repo HEAD: cargo test --offline --test demo_seed (passes); git apply patch.diff; '
                              'cargo test --offline --lib (91 pass); cargo test --offline --test demo_seed (fails)')
        json.dump(meta, open(os.path.join(d, 'meta.json'), 'w'), indent=1)
    return rec



if __name__ == '__main__':
    if len(sys.argv) < 2:
        print(__doc__)
        sys.exit(2)
    if sys.argv[1] == 'table':
        table()
        sys.exit(0)
    if sys.argv[1] == 'import':
        print(json.dumps(confirm_and_import(sys.argv[2], sys.argv[3]), indent=1))
        sys.exit(0)
    which = sys.argv[2]
    props = None
    tier = 'quick'
    for i, a in enumerate(sys.argv):
        if a == '--props':
            props = sys.argv[i + 1].split(',')
        if a == '--tier':
            tier = sys.argv[i + 1]
    ids = sorted(os.listdir(SEEDED)) if which == 'all' else [which]
    for sid in ids:
        if not os.path.isdir(os.path.join(SEEDED, sid)):
            continue
        o = run_one(sid, props, tier)
        print(sid, json.dumps(o.get('caught_by')), {p: v.get('exit') for p, v in o.get('results', {}).items()}, flush=True)


