import subprocess
t = subprocess.run(['python3', '/verif/tools/neutral.py', 'table'], stdout=subprocess.PIPE, text=True).stdout
p = '/verif/DESIGN.md'
s = open(p).read()
import re
if 'NEUTRAL_TABLE' in s:
    s = s.replace('NEUTRAL_TABLE', '<!-- neutral-table-begin -->\n' + t + '<!-- neutral-table-end -->')
else:
    s = re.sub(r'<!-- neutral-table-begin -->.*?<!-- neutral-table-end -->', lambda m: '<!-- neutral-table-begin -->\n' + t + '<!-- neutral-table-end -->', s, flags=re.S)
open(p, 'w').write(s)
print(t.count('\n'))
