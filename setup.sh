#!/bin/bash
# Build everything the checks need from files on disk only (offline): MIR dump of /repo, mt-replay (dev+release), tables.
cd "$(dirname "$0")"
export CARGO_NET_OFFLINE=true
python3-vt -m mirsym.build
