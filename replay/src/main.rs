//! mt-replay: runs scenarios against the real memterm crate (real std HashMap, real generator,
//! real encoding_rs) and prints what happened.  Used (a) to confirm solver witnesses before a
//! VIOLATION is reported and (b) to validate the symbolic engine's predictions on passing paths.
use std::collections::{HashMap, HashSet};
use std::io::{BufRead, Write};
use std::panic::{catch_unwind, AssertUnwindSafe};
use std::sync::{Arc, Mutex};

use memterm::byte_parser::ByteParser;
use memterm::charset::MAPS;
use memterm::parser::Parser;
use memterm::parser_listener::ParserListener;
use memterm::screen::{CharOpts, Charset, Cursor, Margins, Savepoint, Screen};
use serde_json::{json, Map, Value};

fn main() {
    let args: Vec<String> = std::env::args().collect();
    match args.get(1).map(|s| s.as_str()) {
        Some("tables") => tables(),
        Some("run") => run_loop(),
        Some("decode") => decode_loop(),
        Some("strwidth") => strwidth_loop(),
        _ => {
            eprintln!("usage: mt-replay tables|run|decode");
            std::process::exit(2);
        }
    }
}

/// Dump, for every Unicode scalar value, the two dependency functions memterm's draw() consults,
/// as maximal ranges: width class (-1 = None, 0, 1, 2) and is_combining_mark.
fn tables() {
    use unicode_normalization::char::is_combining_mark;
    use unicode_width::UnicodeWidthChar;
    let mut width_ranges: Vec<(u32, u32, i32)> = Vec::new();
    let mut comb_ranges: Vec<(u32, u32)> = Vec::new();
    let mut cur_w: Option<(u32, i32)> = None;
    let mut cur_c: Option<u32> = None;
    let mut last: u32 = 0;
    for cp in 0u32..=0x10FFFF {
        let ch = match char::from_u32(cp) {
            Some(c) => c,
            None => continue,
        };
        let w = match ch.width() {
            None => -1,
            Some(n) => n as i32,
        };
        match cur_w {
            Some((_s, cw)) if cw == w && last + 1 == cp => {}
            Some((s, cw)) => {
                width_ranges.push((s, last, cw));
                cur_w = Some((cp, w));
            }
            None => {
                cur_w = Some((cp, w));
            }
        }
        let c = is_combining_mark(ch);
        match (cur_c, c) {
            (Some(_s), true) if last + 1 == cp => {}
            (Some(s), _) => {
                comb_ranges.push((s, last));
                cur_c = if c { Some(cp) } else { None };
            }
            (None, true) => {
                cur_c = Some(cp);
            }
            (None, false) => {}
        }
        last = cp;
    }
    if let Some((s, cw)) = cur_w {
        width_ranges.push((s, last, cw));
    }
    if let Some(s) = cur_c {
        comb_ranges.push((s, last));
    }
    let w: Vec<String> = width_ranges.iter().map(|(a, b, c)| format!("[{},{},{}]", a, b, c)).collect();
    let c: Vec<String> = comb_ranges.iter().map(|(a, b)| format!("[{},{}]", a, b)).collect();
    // std's Unicode character classes (so that the engine can decide a predicate the crate might call)
    let classes: Vec<(&str, fn(char) -> bool)> = vec![
        ("is_numeric", |c| c.is_numeric()),
        ("is_alphabetic", |c| c.is_alphabetic()),
        ("is_alphanumeric", |c| c.is_alphanumeric()),
        ("is_whitespace", |c| c.is_whitespace()),
        ("is_uppercase", |c| c.is_uppercase()),
        ("is_lowercase", |c| c.is_lowercase()),
    ];
    let mut cls: Vec<String> = Vec::new();
    for (name, f) in classes {
        let mut rs: Vec<String> = Vec::new();
        let mut start: Option<u32> = None;
        let mut prev: u32 = 0;
        for cp in 0u32..=0x10FFFF {
            let on = char::from_u32(cp).map(|ch| f(ch)).unwrap_or(false);
            match (start, on) {
                (None, true) => start = Some(cp),
                (Some(st), false) => {
                    rs.push(format!("[{},{}]", st, prev));
                    start = None;
                }
                _ => {}
            }
            prev = cp;
        }
        if let Some(st) = start {
            rs.push(format!("[{},{}]", st, prev));
        }
        cls.push(format!("\"{}\":[{}]", name, rs.join(",")));
    }
    println!("{{\"width\":[{}],\"combining\":[{}],\"classes\":{{{}}}}}", w.join(","), c.join(","), cls.join(","));
}

/// One JSON array of bytes per line in; the code points encoding_rs's one-shot
/// decode_with_bom_removal yields out.  Used to validate the engine's decoder summary.
fn decode_loop() {
    let stdin = std::io::stdin();
    let out = std::io::stdout();
    for line in stdin.lock().lines() {
        let line = line.unwrap();
        if line.trim().is_empty() {
            continue;
        }
        let v: Value = serde_json::from_str(&line).unwrap();
        let mut o = out.lock();
        if let Some(chunks) = v.get("chunks") {
            // streaming API: one decoder over all chunks, no BOM handling, not `last`
            let mut dec = encoding_rs::UTF_8.new_decoder_without_bom_handling();
            let caps = v.get("caps").and_then(|c| c.as_array().cloned());
            let mut res: Vec<Value> = Vec::new();
            for (k, ch) in chunks.as_array().unwrap().iter().enumerate() {
                let bytes: Vec<u8> = ch.as_array().unwrap().iter().map(|x| x.as_u64().unwrap() as u8).collect();
                match &caps {
                    None => {
                        let mut s = String::with_capacity(dec.max_utf8_buffer_length(bytes.len()).unwrap());
                        let _ = dec.decode_to_string(&bytes, &mut s, false);
                        res.push(json!(s.chars().map(|c| c as u32).collect::<Vec<u32>>()));
                    }
                    Some(cs) => {
                        // explicit (possibly too small) destination capacity: report what was consumed too
                        let cap = cs[k].as_u64().unwrap() as usize;
                        let mut s = String::with_capacity(cap);
                        let r = std::panic::catch_unwind(std::panic::AssertUnwindSafe(|| {
                            let real_cap = s.capacity();
                            let (res_, read, _) = dec.decode_to_string(&bytes, &mut s, false);
                            (real_cap, matches!(res_, encoding_rs::CoderResult::OutputFull), read)
                        }));
                        match r {
                            Ok((real_cap, full, read)) => res.push(json!({"cps": s.chars().map(|c| c as u32).collect::<Vec<u32>>(),
                                                                  "read": read, "full": full, "cap": real_cap})),
                            Err(_) => { res.push(json!({"panic": true})); break; }
                        }
                    }
                }
            }
            writeln!(o, "{}", serde_json::to_string(&res).unwrap()).unwrap();
        } else {
            let bytes: Vec<u8> = v.as_array().unwrap().iter().map(|x| x.as_u64().unwrap() as u8).collect();
            let (cow, _) = encoding_rs::UTF_8.decode_with_bom_removal(&bytes);
            let cps: Vec<u32> = cow.chars().map(|c| c as u32).collect();
            writeln!(o, "{}", serde_json::to_string(&cps).unwrap()).unwrap();
        }
        o.flush().unwrap();
    }
}

/// One JSON array of code points per line in; unicode-width's string width out.
fn strwidth_loop() {
    use unicode_width::UnicodeWidthStr;
    let stdin = std::io::stdin();
    for line in stdin.lock().lines() {
        let line = line.unwrap();
        if line.trim().is_empty() {
            continue;
        }
        let v: Value = serde_json::from_str(&line).unwrap();
        let s: String = v.as_array().unwrap().iter().map(|x| char::from_u32(x.as_u64().unwrap() as u32).unwrap()).collect();
        println!("{}", s.as_str().width());
    }
}

// ------------------------------------------------------------------------------------------------

/// Listener that records every call (the recogniser's observable output).
struct Rec {
    ev: Vec<Value>,
}

fn o(v: Option<u32>) -> Value {
    match v {
        Some(n) => json!(n),
        None => Value::Null,
    }
}

impl ParserListener for Rec {
    fn alignment_display(&mut self) { self.ev.push(json!(["alignment_display"])); }
    fn define_charset(&mut self, code: &str, mode: &str) { self.ev.push(json!(["define_charset", code, mode])); }
    fn reset(&mut self) { self.ev.push(json!(["reset"])); }
    fn index(&mut self) { self.ev.push(json!(["index"])); }
    fn linefeed(&mut self) { self.ev.push(json!(["linefeed"])); }
    fn reverse_index(&mut self) { self.ev.push(json!(["reverse_index"])); }
    fn set_tab_stop(&mut self) { self.ev.push(json!(["set_tab_stop"])); }
    fn save_cursor(&mut self) { self.ev.push(json!(["save_cursor"])); }
    fn restore_cursor(&mut self) { self.ev.push(json!(["restore_cursor"])); }
    fn shift_out(&mut self) { self.ev.push(json!(["shift_out"])); }
    fn shift_in(&mut self) { self.ev.push(json!(["shift_in"])); }
    fn bell(&mut self) { self.ev.push(json!(["bell"])); }
    fn backspace(&mut self) { self.ev.push(json!(["backspace"])); }
    fn tab(&mut self) { self.ev.push(json!(["tab"])); }
    fn cariage_return(&mut self) { self.ev.push(json!(["cariage_return"])); }
    fn draw(&mut self, input: &str) { self.ev.push(json!(["draw", input])); }
    fn insert_characters(&mut self, c: Option<u32>) { self.ev.push(json!(["insert_characters", o(c)])); }
    fn cursor_up(&mut self, c: Option<u32>) { self.ev.push(json!(["cursor_up", o(c)])); }
    fn cursor_down(&mut self, c: Option<u32>) { self.ev.push(json!(["cursor_down", o(c)])); }
    fn cursor_forward(&mut self, c: Option<u32>) { self.ev.push(json!(["cursor_forward", o(c)])); }
    fn cursor_back(&mut self, c: Option<u32>) { self.ev.push(json!(["cursor_back", o(c)])); }
    fn cursor_down1(&mut self, c: Option<u32>) { self.ev.push(json!(["cursor_down1", o(c)])); }
    fn cursor_up1(&mut self, c: Option<u32>) { self.ev.push(json!(["cursor_up1", o(c)])); }
    fn cursor_to_column(&mut self, c: Option<u32>) { self.ev.push(json!(["cursor_to_column", o(c)])); }
    fn cursor_position(&mut self, l: Option<u32>, c: Option<u32>) { self.ev.push(json!(["cursor_position", o(l), o(c)])); }
    fn erase_in_display(&mut self, h: Option<u32>, _p: Option<bool>) { self.ev.push(json!(["erase_in_display", o(h)])); }
    fn erase_in_line(&mut self, h: Option<u32>, _p: Option<bool>) { self.ev.push(json!(["erase_in_line", o(h)])); }
    fn insert_lines(&mut self, c: Option<u32>) { self.ev.push(json!(["insert_lines", o(c)])); }
    fn delete_lines(&mut self, c: Option<u32>) { self.ev.push(json!(["delete_lines", o(c)])); }
    fn delete_characters(&mut self, c: Option<u32>) { self.ev.push(json!(["delete_characters", o(c)])); }
    fn erase_characters(&mut self, c: Option<u32>) { self.ev.push(json!(["erase_characters", o(c)])); }
    fn report_device_attributes(&mut self, m: Option<u32>, _p: Option<bool>) { self.ev.push(json!(["report_device_attributes", o(m)])); }
    fn cursor_to_line(&mut self, l: Option<u32>) { self.ev.push(json!(["cursor_to_line", o(l)])); }
    fn clear_tab_stop(&mut self, h: Option<u32>) { self.ev.push(json!(["clear_tab_stop", o(h)])); }
    fn set_mode(&mut self, m: &[u32], p: bool) { self.ev.push(json!(["set_mode", m, p])); }
    fn reset_mode(&mut self, m: &[u32], p: bool) { self.ev.push(json!(["reset_mode", m, p])); }
    fn select_graphic_rendition(&mut self, m: &[u32]) { self.ev.push(json!(["select_graphic_rendition", m])); }
    fn set_title(&mut self, t: &str) { self.ev.push(json!(["set_title", t])); }
    fn set_icon_name(&mut self, t: &str) { self.ev.push(json!(["set_icon_name", t])); }
    fn set_margins(&mut self, t: Option<u32>, b: Option<u32>) { self.ev.push(json!(["set_margins", o(t), o(b)])); }
    fn display(&mut self) -> Vec<String> { self.ev.push(json!(["display"])); Vec::new() }
}

// ------------------------------------------------------------------------------------------------ snapshot

fn cell_json(c: &CharOpts) -> Value {
    let mut fl = 0u32;
    if c.bold { fl |= 1; }
    if c.italics { fl |= 2; }
    if c.underscore { fl |= 4; }
    if c.strikethrough { fl |= 8; }
    if c.reverse { fl |= 16; }
    if c.blink { fl |= 32; }
    json!([c.data, c.fg, c.bg, fl])
}

fn cell_from(v: &Value) -> CharOpts {
    let a = v.as_array().expect("cell array");
    let fl = a[3].as_u64().unwrap() as u32;
    CharOpts {
        data: a[0].as_str().unwrap().to_string(),
        fg: a[1].as_str().unwrap().to_string(),
        bg: a[2].as_str().unwrap().to_string(),
        bold: fl & 1 != 0,
        italics: fl & 2 != 0,
        underscore: fl & 4 != 0,
        strikethrough: fl & 8 != 0,
        reverse: fl & 16 != 0,
        blink: fl & 32 != 0,
    }
}

fn charset_name(t: &[char; 256]) -> Value {
    for k in ["B", "0", "U", "V"] {
        if let Some(m) = MAPS.get(k) {
            if m == t {
                return json!(k);
            }
        }
    }
    json!(t.iter().map(|c| *c as u32).collect::<Vec<u32>>())
}

fn charset_from(v: &Value) -> [char; 256] {
    if let Some(s) = v.as_str() {
        return MAPS.get(s).expect("charset name").clone();
    }
    let a = v.as_array().unwrap();
    let mut t = ['\0'; 256];
    for (i, x) in a.iter().enumerate() {
        t[i] = char::from_u32(x.as_u64().unwrap() as u32).unwrap();
    }
    t
}

fn cursor_json(c: &Cursor) -> Value {
    json!({"x": c.x, "y": c.y, "hidden": c.hidden, "attr": cell_json(&c.attr)})
}

fn cursor_from(v: &Value) -> Cursor {
    Cursor {
        x: v["x"].as_u64().unwrap() as u32,
        y: v["y"].as_u64().unwrap() as u32,
        hidden: v["hidden"].as_bool().unwrap(),
        attr: cell_from(&v["attr"]),
    }
}

fn sorted(s: &HashSet<u32>) -> Vec<u32> {
    let mut v: Vec<u32> = s.iter().cloned().collect();
    v.sort();
    v
}

fn snapshot(s: &Screen) -> Value {
    let mut buf = Map::new();
    let mut ys: Vec<&u32> = s.buffer.keys().collect();
    ys.sort();
    for y in ys {
        let line = &s.buffer[y];
        let mut row = Map::new();
        let mut xs: Vec<&u32> = line.keys().collect();
        xs.sort();
        for x in xs {
            row.insert(x.to_string(), cell_json(&line[x]));
        }
        buf.insert(y.to_string(), Value::Object(row));
    }
    let sp: Vec<Value> = s
        .savepoints
        .iter()
        .map(|p| {
            json!({"cursor": cursor_json(&p.cursor), "g0": charset_name(&p.g0_charset), "g1": charset_name(&p.g1_charset),
                   "charset": if p.charset == Charset::G0 {0} else {1}, "origin": p.origin, "wrap": p.wrap})
        })
        .collect();
    json!({
        "columns": s.columns, "lines": s.lines,
        "cursor": cursor_json(&s.cursor),
        "margins": match s.margins { Some(Margins{top,bottom}) => json!([top,bottom]), None => Value::Null },
        "mode": sorted(&s.mode), "dirty": sorted(&s.dirty), "tabstops": sorted(&s.tabstops),
        "buffer": Value::Object(buf),
        "title": s.title, "icon_name": s.icon_name,
        "charset": if s.charset == Charset::G0 {0} else {1},
        "g0": charset_name(&s.g0_charset), "g1": charset_name(&s.g1_charset),
        "saved_columns": match s.saved_columns { Some(n) => json!(n), None => Value::Null },
        "savepoints": sp,
    })
}

fn set_u32(v: &Value) -> HashSet<u32> {
    v.as_array().unwrap().iter().map(|x| x.as_u64().unwrap() as u32).collect()
}

fn apply_state(s: &mut Screen, st: &Value) {
    if let Some(v) = st.get("columns") { s.columns = v.as_u64().unwrap() as u32; }
    if let Some(v) = st.get("lines") { s.lines = v.as_u64().unwrap() as u32; }
    if let Some(v) = st.get("cursor") { s.cursor = cursor_from(v); }
    if let Some(v) = st.get("margins") {
        s.margins = if v.is_null() { None } else {
            Some(Margins { top: v[0].as_u64().unwrap() as u32, bottom: v[1].as_u64().unwrap() as u32 })
        };
    }
    if let Some(v) = st.get("mode") { s.mode = set_u32(v); }
    if let Some(v) = st.get("dirty") { s.dirty = set_u32(v); }
    if let Some(v) = st.get("tabstops") { s.tabstops = set_u32(v); }
    if let Some(v) = st.get("buffer") {
        let mut buf: HashMap<u32, HashMap<u32, CharOpts>> = HashMap::new();
        for (y, row) in v.as_object().unwrap() {
            let mut line = HashMap::new();
            for (x, c) in row.as_object().unwrap() {
                line.insert(x.parse::<u32>().unwrap(), cell_from(c));
            }
            buf.insert(y.parse::<u32>().unwrap(), line);
        }
        s.buffer = buf;
    }
    if let Some(v) = st.get("title") { s.title = v.as_str().unwrap().to_string(); }
    if let Some(v) = st.get("icon_name") { s.icon_name = v.as_str().unwrap().to_string(); }
    if let Some(v) = st.get("charset") { s.charset = if v.as_u64().unwrap() == 0 { Charset::G0 } else { Charset::G1 }; }
    if let Some(v) = st.get("g0") { s.g0_charset = charset_from(v); }
    if let Some(v) = st.get("g1") { s.g1_charset = charset_from(v); }
    if let Some(v) = st.get("saved_columns") { s.saved_columns = if v.is_null() { None } else { Some(v.as_u64().unwrap() as _) }; }
    if let Some(v) = st.get("savepoints") {
        s.savepoints = v.as_array().unwrap().iter().map(|p| Savepoint {
            cursor: cursor_from(&p["cursor"]),
            g0_charset: charset_from(&p["g0"]),
            g1_charset: charset_from(&p["g1"]),
            charset: if p["charset"].as_u64().unwrap() == 0 { Charset::G0 } else { Charset::G1 },
            origin: p["origin"].as_bool().unwrap(),
            wrap: p["wrap"].as_bool().unwrap(),
        }).collect();
    }
}

fn ou(v: &Value) -> Option<u32> {
    if v.is_null() { None } else { Some(v.as_u64().unwrap() as u32) }
}

fn vu(v: &Value) -> Vec<u32> {
    v.as_array().unwrap().iter().map(|x| x.as_u64().unwrap() as u32).collect()
}

/// Apply one direct listener call.  Returns Some(value) when the step produces output.
fn apply_op<T: ParserListener>(l: &mut T, st: &[Value]) -> Option<Value> {
    let name = st[0].as_str().unwrap();
    let a = |i: usize| st.get(i).cloned().unwrap_or(Value::Null);
    match name {
        "alignment_display" => l.alignment_display(),
        "define_charset" => l.define_charset(a(1).as_str().unwrap(), a(2).as_str().unwrap()),
        "reset" => l.reset(),
        "index" => l.index(),
        "linefeed" => l.linefeed(),
        "reverse_index" => l.reverse_index(),
        "set_tab_stop" => l.set_tab_stop(),
        "save_cursor" => l.save_cursor(),
        "restore_cursor" => l.restore_cursor(),
        "shift_out" => l.shift_out(),
        "shift_in" => l.shift_in(),
        "bell" => l.bell(),
        "backspace" => l.backspace(),
        "tab" => l.tab(),
        "cariage_return" => l.cariage_return(),
        "draw" => l.draw(a(1).as_str().unwrap()),
        "insert_characters" => l.insert_characters(ou(&a(1))),
        "cursor_up" => l.cursor_up(ou(&a(1))),
        "cursor_down" => l.cursor_down(ou(&a(1))),
        "cursor_forward" => l.cursor_forward(ou(&a(1))),
        "cursor_back" => l.cursor_back(ou(&a(1))),
        "cursor_down1" => l.cursor_down1(ou(&a(1))),
        "cursor_up1" => l.cursor_up1(ou(&a(1))),
        "cursor_to_column" => l.cursor_to_column(ou(&a(1))),
        "cursor_position" => l.cursor_position(ou(&a(1)), ou(&a(2))),
        "erase_in_display" => l.erase_in_display(ou(&a(1)), None),
        "erase_in_line" => l.erase_in_line(ou(&a(1)), None),
        "insert_lines" => l.insert_lines(ou(&a(1))),
        "delete_lines" => l.delete_lines(ou(&a(1))),
        "delete_characters" => l.delete_characters(ou(&a(1))),
        "erase_characters" => l.erase_characters(ou(&a(1))),
        "report_device_attributes" => l.report_device_attributes(ou(&a(1)), None),
        "cursor_to_line" => l.cursor_to_line(ou(&a(1))),
        "clear_tab_stop" => l.clear_tab_stop(ou(&a(1))),
        "set_mode" => l.set_mode(&vu(&a(1)), a(2).as_bool().unwrap()),
        "reset_mode" => l.reset_mode(&vu(&a(1)), a(2).as_bool().unwrap()),
        "select_graphic_rendition" => l.select_graphic_rendition(&vu(&a(1))),
        "set_title" => l.set_title(a(1).as_str().unwrap()),
        "set_icon_name" => l.set_icon_name(a(1).as_str().unwrap()),
        "set_margins" => l.set_margins(ou(&a(1)), ou(&a(2))),
        "display" => return Some(json!(l.display())),
        "escape_dispatch" => l.escape_dispatch(a(1).as_str().unwrap()),
        "basic_dispatch" => l.basic_dispatch(a(1).as_str().unwrap()),
        "csi_dispatch" => l.csi_dispatch(a(1).as_str().unwrap(), &vu(&a(2)), a(3).as_bool().unwrap()),
        other => panic!("mt-replay: unknown op {}", other),
    }
    None
}

enum Front<'a, T: ParserListener + Send + 'a> {
    None,
    Chars(Parser<'a, T>),
    Bytes(ByteParser<'a, T>),
}

fn run_steps<T: ParserListener + Send>(
    l: Arc<Mutex<T>>,
    steps: &[Value],
    out: &mut Vec<Value>,
    snap: &dyn Fn(&T) -> Value,
    pre: &dyn Fn(&mut T, &Value),
    extra: &dyn Fn(&mut T, &[Value]) -> bool,
) {
    let mut front: Front<T> = Front::None;
    for st in steps {
        let st = st.as_array().unwrap();
        let name = st[0].as_str().unwrap();
        match name {
            "parser" => { front = Front::Chars(Parser::new(l.clone())); }
            "byte_parser" => { front = Front::Bytes(ByteParser::new(l.clone())); }
            "feed" => {
                let s = st[1].as_str().unwrap().to_string();
                if let Front::None = front { front = Front::Chars(Parser::new(l.clone())); }
                match &mut front {
                    Front::Chars(p) => p.feed(s),
                    Front::Bytes(p) => p.feed(s.as_bytes()),
                    Front::None => unreachable!(),
                }
            }
            "feed_cps" => {
                let s: String = st[1].as_array().unwrap().iter().map(|x| char::from_u32(x.as_u64().unwrap() as u32).unwrap()).collect();
                if let Front::None = front { front = Front::Chars(Parser::new(l.clone())); }
                match &mut front {
                    Front::Chars(p) => p.feed(s),
                    Front::Bytes(p) => p.feed(s.as_bytes()),
                    Front::None => unreachable!(),
                }
            }
            "feed_bytes" => {
                let b: Vec<u8> = st[1].as_array().unwrap().iter().map(|x| x.as_u64().unwrap() as u8).collect();
                if let Front::None = front { front = Front::Bytes(ByteParser::new(l.clone())); }
                match &mut front {
                    Front::Bytes(p) => p.feed(&b),
                    Front::Chars(p) => p.feed(b.iter().map(|&x| x as char).collect()),
                    Front::None => unreachable!(),
                }
            }
            "set_use_utf8" => {
                if let Front::None = front { front = Front::Chars(Parser::new(l.clone())); }
                if let Front::Chars(p) = &mut front { p.set_use_utf8(st[1].as_bool().unwrap()); }
            }
            "select_other_charset" => {
                if let Front::None = front { front = Front::Bytes(ByteParser::new(l.clone())); }
                if let Front::Bytes(p) = &mut front { p.select_other_charset(st[1].as_str().unwrap()); }
            }
            "snapshot" => { out.push(snap(&l.lock().unwrap())); }
            "state" => { pre(&mut l.lock().unwrap(), &st[1]); }
            _ => {
                if extra(&mut l.lock().unwrap(), st) {
                    continue;
                }
                let r = apply_op(&mut *l.lock().unwrap(), st);
                if let Some(v) = r { out.push(v); }
            }
        }
    }
    out.push(snap(&l.lock().unwrap()));
}

fn run_loop() {
    std::panic::set_hook(Box::new(|_| {}));
    let stdin = std::io::stdin();
    let stdout = std::io::stdout();
    for line in stdin.lock().lines() {
        let line = line.unwrap();
        if line.trim().is_empty() {
            continue;
        }
        let sc: Value = match serde_json::from_str(&line) {
            Ok(v) => v,
            Err(e) => {
                let mut so = stdout.lock();
                writeln!(so, "\n@@RESULT {}", json!({"error": format!("bad scenario: {}", e)})).unwrap();
                so.flush().unwrap();
                continue;
            }
        };
        let cols = sc["cols"].as_u64().unwrap_or(80) as u32;
        let lines = sc["lines"].as_u64().unwrap_or(24) as u32;
        let steps: Vec<Value> = sc["steps"].as_array().cloned().unwrap_or_default();
        let listener = sc["listener"].as_str().unwrap_or("screen").to_string();
        let mut outs: Vec<Value> = Vec::new();
        let res = catch_unwind(AssertUnwindSafe(|| {
            if listener == "rec" {
                let l = Arc::new(Mutex::new(Rec { ev: Vec::new() }));
                run_steps(l, &steps, &mut outs, &|r: &Rec| Value::Array(r.ev.clone()), &|_r, _v| {}, &|_r, _st| false);
            } else {
                let mut s = Screen::new(cols, lines);
                if let Some(st) = sc.get("state") {
                    if !st.is_null() {
                        apply_state(&mut s, st);
                    }
                }
                let l = Arc::new(Mutex::new(s));
                run_steps(l, &steps, &mut outs, &|s: &Screen| snapshot(s), &|s, v| apply_state(s, v), &|s: &mut Screen, st: &[Value]| {
                    if st[0].as_str() == Some("resize") {
                        s.resize(ou(st.get(1).unwrap_or(&Value::Null)), ou(st.get(2).unwrap_or(&Value::Null)));
                        true
                    } else {
                        false
                    }
                });
            }
        }));
        let result = match res {
            Ok(()) => json!({"ok": true, "out": outs}),
            Err(e) => {
                let msg = if let Some(s) = e.downcast_ref::<&str>() {
                    s.to_string()
                } else if let Some(s) = e.downcast_ref::<String>() {
                    s.clone()
                } else {
                    "panic".to_string()
                };
                json!({"ok": false, "panic": msg, "out": outs})
            }
        };
        // memterm println!s diagnostics to stdout: results are tagged so the client can skip those
        let mut so = stdout.lock();
        writeln!(so, "\n@@RESULT {}", result).unwrap();
        so.flush().unwrap();
    }
}
