"""Parser for rustc's `-Zunpretty=mir` text dump.

The dump is a small regular language: items (fn / const / static / promoted),
local declarations with types, basic blocks of `place = rvalue;` statements and
one terminator.  Everything is parsed into plain tuples so the interpreter can
dispatch on the first element.

Place      : ('local', n) followed by a projection list
             projections: ('deref',) ('field', i, ty) ('downcast', variant)
                          ('index', local) ('cindex', i)
Operand    : ('copy', place) ('move', place) ('const', text, ty_or_None) ('fn', path)
Rvalue     : ('use', op) ('ref', mut, place) ('rawptr', mut, place)
             ('bin', op, a, b) ('un', op, a) ('cast', op, ty, kind)
             ('discr', place) ('len', place) ('agg', kind, name, [ops], [fieldnames])
             ('repeat', op, count_text) ('cfd', place)
Statement  : ('assign', place, rvalue) ('setdiscr', place, idx) ('nop',)
Terminator : ('goto', bb) ('switch', op, [(val, bb)], otherwise_bb)
             ('call', dest_place_or_None, func_operand_or_path, [ops], ret_bb_or_None)
             ('assert', cond_op, expected_bool, msg, [msg ops], bb)
             ('drop', place, bb) ('return',) ('unreachable',) ('resume',)
"""
import re
import sys

sys.setrecursionlimit(10000)

OPEN = {'(': ')', '[': ']', '{': '}', '<': '>'}
CLOSE = {')', ']', '}', '>'}


def _skip_quote(s, i):
    """s[i] is a quote char starting a string/char/byte literal; return index after it."""
    q = s[i]
    j = i + 1
    n = len(s)
    while j < n:
        c = s[j]
        if c == '\\':
            j += 2
            continue
        if c == q:
            return j + 1
        j += 1
    return n


def _is_char_lit(s, i):
    # s[i] == "'"; char literal iff closing quote follows one (possibly escaped) char
    if i + 1 < len(s) and s[i + 1] == '\\':
        return True
    return i + 2 < len(s) and s[i + 2] == "'"


def top_level_split(s, delim):
    """Split s at top-level occurrences of delim (a string), respecting brackets and literals."""
    parts = []
    depth = 0
    i = 0
    n = len(s)
    start = 0
    dl = len(delim)
    while i < n:
        c = s[i]
        if c == '"':
            i = _skip_quote(s, i)
            continue
        if c == "'" and _is_char_lit(s, i):
            i = _skip_quote(s, i)
            continue
        if depth == 0 and s.startswith(delim, i):
            parts.append(s[start:i])
            i += dl
            start = i
            continue
        if c == '-' and i + 1 < n and s[i + 1] == '>':
            i += 2
            continue
        if c == '=' and i + 1 < n and s[i + 1] == '>':
            i += 2
            continue
        if c in OPEN:
            depth += 1
        elif c in CLOSE:
            depth -= 1
        i += 1
    parts.append(s[start:])
    return parts


def find_top_level(s, delim, last=False):
    """Index of first (or last) top-level occurrence of delim in s, or -1."""
    depth = 0
    i = 0
    n = len(s)
    found = -1
    while i < n:
        c = s[i]
        if c == '"':
            i = _skip_quote(s, i)
            continue
        if c == "'" and _is_char_lit(s, i):
            i = _skip_quote(s, i)
            continue
        if depth == 0 and s.startswith(delim, i):
            if not last:
                return i
            found = i
            if delim[0] not in OPEN and delim[0] not in CLOSE:
                i += len(delim)
                continue
        if c == '-' and i + 1 < n and s[i + 1] == '>':
            i += 2
            continue
        if c == '=' and i + 1 < n and s[i + 1] == '>':
            i += 2
            continue
        if c in OPEN:
            depth += 1
        elif c in CLOSE:
            depth -= 1
        i += 1
    return found


def match_paren(s, i):
    """s[i] is an opening bracket; return the index of its matching closer."""
    depth = 0
    n = len(s)
    while i < n:
        c = s[i]
        if c == '"':
            i = _skip_quote(s, i)
            continue
        if c == "'" and _is_char_lit(s, i):
            i = _skip_quote(s, i)
            continue
        if c == '-' and i + 1 < n and s[i + 1] == '>':
            i += 2
            continue
        if c == '=' and i + 1 < n and s[i + 1] == '>':
            i += 2
            continue
        if c in OPEN:
            depth += 1
        elif c in CLOSE:
            depth -= 1
            if depth == 0:
                return i
        i += 1
    raise ValueError('unbalanced: ' + s)


class ParseError(Exception):
    pass


# --------------------------------------------------------------------------- places

_local_re = re.compile(r'_(\d+)')


def parse_place(s):
    s = s.strip()
    pl, rest = _parse_place_prefix(s)
    if rest.strip():
        raise ParseError('trailing place text %r in %r' % (rest, s))
    return pl


def _parse_place_prefix(s):
    """Parse a place at the start of s; return (place, rest)."""
    if s.startswith('_'):
        m = _local_re.match(s)
        if not m:
            raise ParseError('bad place ' + s)
        base = int(m.group(1))
        proj = []
        rest = s[m.end():]
    elif s.startswith('('):
        end = match_paren(s, 0)
        inner = s[1:end]
        rest = s[end + 1:]
        if inner.startswith('*'):
            p = parse_place(inner[1:])
            base, proj = p[1], list(p[2]) + [('deref',)]
        else:
            # (P.N: TY)  or (P as Variant)
            p, r2 = _parse_place_prefix(inner)
            base, proj = p[1], list(p[2])
            r2s = r2
            if r2s.startswith('.'):
                m = re.match(r'\.(\d+): ', r2s)
                if not m:
                    raise ParseError('bad field proj ' + s)
                proj.append(('field', int(m.group(1)), r2s[m.end():].strip()))
            elif r2s.startswith(' as '):
                proj.append(('downcast', r2s[4:].strip()))
            else:
                raise ParseError('bad paren place ' + s)
    else:
        raise ParseError('bad place ' + s)
    # suffixes
    while rest.startswith('['):
        end = match_paren(rest, 0)
        idx = rest[1:end]
        if idx.startswith('_'):
            proj.append(('index', int(idx[1:])))
        else:
            m = re.match(r'(-?\d+) of (\d+)', idx)
            if m:
                k = int(m.group(1))
                proj.append(('cindex', k, int(m.group(2))))
            else:
                m = re.match(r'(\d+):(-?\d*)', idx)
                raise ParseError('subslice unsupported ' + s)
        rest = rest[end + 1:]
    return ('place', base, tuple(proj)), rest


# --------------------------------------------------------------------------- operands / rvalues

BINOPS = {'Add', 'Sub', 'Mul', 'Div', 'Rem', 'BitAnd', 'BitOr', 'BitXor', 'Shl', 'Shr', 'Eq', 'Ne',
          'Lt', 'Le', 'Gt', 'Ge', 'AddWithOverflow', 'SubWithOverflow', 'MulWithOverflow',
          'AddUnchecked', 'SubUnchecked', 'MulUnchecked', 'ShlUnchecked', 'ShrUnchecked', 'Offset',
          'Cmp'}
UNOPS = {'Not', 'Neg', 'PtrMetadata'}


def parse_operand(s):
    s = s.strip()
    if s.startswith('no_retag '):
        s = s[9:]
    if s.startswith('copy '):
        return ('copy', parse_place(s[5:]))
    if s.startswith('move '):
        return ('move', parse_place(s[5:]))
    if s.startswith('const '):
        return ('const', s[6:].strip())
    # bare path: function item (or unit struct/variant when used as rvalue)
    return ('fn', s)


def parse_rvalue(s):
    s = s.strip()
    if s.startswith('no_retag '):
        s = s[9:]
    if s.startswith('&raw const '):
        return ('rawptr', False, parse_place(s[11:]))
    if s.startswith('&raw mut '):
        return ('rawptr', True, parse_place(s[9:]))
    if s.startswith('&mut '):
        return ('ref', True, parse_place(s[5:]))
    if s.startswith('&fake shallow '):
        return ('ref', False, parse_place(s[14:]))
    if s.startswith('&fake '):
        return ('ref', False, parse_place(s[6:]))
    if s.startswith('&') and not s.startswith('&&'):
        # could be `&_5` or a cast like `&_5 as ...` (does not occur)
        return ('ref', False, parse_place(s[1:]))
    # cast:  OPERAND as TYPE (Kind)
    k = find_top_level(s, ' as ')
    if k >= 0 and (s.startswith('copy ') or s.startswith('move ') or s.startswith('const ')):
        # make sure the ` as ` is not part of a `(P as Variant)` (that is nested => not top-level)
        tail = s[k + 4:]
        m = re.search(r' \(([A-Za-z]+(?:\(.*\))?)\)$', tail)
        if m:
            return ('cast', parse_operand(s[:k]), tail[:m.start()].strip(), m.group(1))
    m = re.match(r'([A-Za-z]+)\(', s)
    if m and s.endswith(')') and match_paren(s, m.end() - 1) == len(s) - 1:
        name = m.group(1)
        inner = s[m.end():-1]
        if name in BINOPS:
            a, b = top_level_split(inner, ', ')
            return ('bin', name, parse_operand(a), parse_operand(b))
        if name in UNOPS:
            return ('un', name, parse_operand(inner))
        if name == 'discriminant':
            return ('discr', parse_place(inner))
        if name == 'Len':
            return ('len', parse_place(inner))
        if name == 'CopyForDeref':
            return ('use', ('copy', parse_place(inner)))
        if name == 'ShallowInitBox':
            raise ParseError('ShallowInitBox unsupported: ' + s)
    if s.startswith('copy ') or s.startswith('move ') or s.startswith('const '):
        return ('use', parse_operand(s))
    # aggregates
    if s.startswith('('):
        end = match_paren(s, 0)
        if end == len(s) - 1:
            inner = s[1:-1].strip()
            if inner == '':
                return ('agg', 'tuple', None, [], None)
            if inner.endswith(','):
                inner = inner[:-1]
            return ('agg', 'tuple', None, [parse_operand(x) for x in top_level_split(inner, ', ')], None)
    if s.startswith('['):
        end = match_paren(s, 0)
        if end == len(s) - 1:
            inner = s[1:-1]
            k = find_top_level(inner, '; ')
            if k >= 0:
                return ('repeat', parse_operand(inner[:k]), inner[k + 2:].strip())
            if inner.strip() == '':
                return ('agg', 'array', None, [], None)
            return ('agg', 'array', None, [parse_operand(x) for x in top_level_split(inner, ', ')], None)
    # struct aggregate  Path { f: op, .. }   / closure aggregate {closure@..} { f: op }
    if s.endswith('}'):
        # find the last top-level ' {'
        k = find_top_level(s, ' { ', last=True)
        if k >= 0:
            name = s[:k].strip()
            inner = s[k + 3:-1].strip()
            if inner.endswith(','):
                inner = inner[:-1]
            ops, names = [], []
            if inner:
                for part in top_level_split(inner, ', '):
                    j = part.index(': ')
                    names.append(part[:j].strip())
                    ops.append(parse_operand(part[j + 2:]))
            return ('agg', 'struct', name, ops, names)
        if s.startswith('{closure@') or s.startswith('{coroutine@'):
            return ('agg', 'struct', s, [], [])
    # enum variant with payload: Path::Variant(ops)
    if s.endswith(')'):
        # last top-level '('
        depth = 0
        k = find_top_level(s, '(', last=True)
        if k > 0 and match_paren(s, k) == len(s) - 1:
            name = s[:k]
            inner = s[k + 1:-1]
            ops = [parse_operand(x) for x in top_level_split(inner, ', ')] if inner.strip() else []
            return ('agg', 'variant', name, ops, None)
    # unit variant / unit struct path
    if re.match(r'^[A-Za-z_<{]', s):
        return ('agg', 'variant', s, [], None)
    raise ParseError('unknown rvalue: ' + s)


# --------------------------------------------------------------------------- statements / terminators

_bb_re = re.compile(r'bb(\d+)')


def _bb(s):
    return int(_bb_re.search(s).group(1))


def parse_statement(s):
    """s without trailing ';'.  Returns ('stmt', ...) or ('term', ...)."""
    if s.startswith('StorageLive(') or s.startswith('StorageDead(') or s == 'ConstEvalCounter' \
            or s == 'nop' or s.startswith('FakeRead(') or s.startswith('AscribeUserType(') \
            or s.startswith('Retag(') or s.startswith('PlaceMention(') or s.startswith('Coverage::') \
            or s.startswith('BackwardIncompatibleDropHint('):
        return ('stmt', ('nop',))
    if s == 'return':
        return ('term', ('return',))
    if s == 'unreachable':
        return ('term', ('unreachable',))
    if s == 'resume' or s == 'terminate(cleanup)' or s.startswith('terminate('):
        return ('term', ('resume',))
    if s.startswith('goto -> '):
        return ('term', ('goto', _bb(s)))
    if s.startswith('switchInt('):
        end = match_paren(s, 9)
        op = parse_operand(s[10:end])
        tgt = s[end + 1:].strip()
        assert tgt.startswith('-> [') and tgt.endswith(']'), s
        cases = []
        other = None
        for part in tgt[4:-1].split(', '):
            v, b = part.split(': ')
            if v == 'otherwise':
                other = _bb(b)
            else:
                cases.append((int(v), _bb(b)))
        return ('term', ('switch', op, cases, other))
    if s.startswith('drop('):
        end = match_paren(s, 4)
        pl = parse_place(s[5:end])
        m = re.search(r'return: bb(\d+)', s[end:])
        return ('term', ('drop', pl, int(m.group(1))))
    if s.startswith('assert('):
        end = match_paren(s, 6)
        inner = s[7:end]
        parts = top_level_split(inner, ', ')
        cond = parts[0].strip()
        expected = True
        if cond.startswith('!'):
            expected = False
            cond = cond[1:]
        msg = parts[1]
        mops = [parse_operand(p) for p in parts[2:]]
        m = re.search(r'success: bb(\d+)', s[end:])
        return ('term', ('assert', parse_operand(cond), expected, msg, mops, int(m.group(1))))
    if s.startswith('discriminant(') and ' = ' in s:
        end = match_paren(s, 12)
        pl = parse_place(s[13:end])
        return ('stmt', ('setdiscr', pl, int(s[end + 1:].split('=')[1].strip())))
    if s.startswith('Deinit('):
        return ('stmt', ('nop',))
    # call terminator?  "... -> [return: bbN, unwind ...]" or "... -> unwind continue"
    k = find_top_level(s, ' -> ', last=True)
    if k >= 0 and (s[k + 4:].startswith('[return') or s[k + 4:].startswith('unwind')
                   or s[k + 4:].startswith('[unwind')):
        head = s[:k]
        tail = s[k + 4:]
        m = re.search(r'return: bb(\d+)', tail)
        ret = int(m.group(1)) if m else None
        e = find_top_level(head, ' = ')
        dest = None
        if e >= 0:
            dest = parse_place(head[:e])
            head = head[e + 3:]
        head = head.strip()
        # args = last top-level paren group ending at end
        assert head.endswith(')'), s
        kk = find_top_level(head, '(', last=True)
        assert kk >= 0 and match_paren(head, kk) == len(head) - 1, s
        func = head[:kk].strip()
        inner = head[kk + 1:-1]
        args = [parse_operand(x) for x in top_level_split(inner, ', ')] if inner.strip() else []
        if func.startswith('move ') or func.startswith('copy '):
            f = parse_operand(func)
        else:
            f = ('fn', func)
        return ('term', ('call', dest, f, args, ret))
    e = find_top_level(s, ' = ')
    if e >= 0:
        return ('stmt', ('assign', parse_place(s[:e]), parse_rvalue(s[e + 3:])))
    raise ParseError('unknown statement: ' + s)


class Body:
    __slots__ = ('kind', 'name', 'header', 'args', 'ret_ty', 'local_tys', 'blocks', 'debug', 'nargs',
                 'const_value', 'order', 'nlocals')

    def __repr__(self):
        return '<Body %s %s>' % (self.kind, self.name)


_hdr_fn = re.compile(r'^fn (.*)$')


def _parse_fn_header(line):
    # fn NAME(ARGS) -> RET {
    assert line.endswith(' {'), line
    s = line[3:-2]
    k = find_top_level(s, ' -> ', last=True)
    ret = s[k + 4:]
    s2 = s[:k]
    kk = find_top_level(s2, '(', last=True)
    name = s2[:kk]
    inner = s2[kk + 1:-1]
    args = []
    if inner.strip():
        for part in top_level_split(inner, ', '):
            j = part.index(': ')
            args.append((int(part[:j].strip()[1:]), part[j + 2:].strip()))
    return name, args, ret


def parse_mir(text):
    """Return list of Body in file order."""
    lines = text.split('\n')
    bodies = []
    i = 0
    n = len(lines)
    order = 0
    while i < n:
        line = lines[i]
        if line.startswith('fn ') or line.startswith('const ') or line.startswith('static ') \
                or line.startswith('promoted['):
            b = Body()
            b.order = order
            order += 1
            b.header = line
            b.const_value = None
            b.debug = {}
            b.local_tys = {}
            b.blocks = {}
            b.args = []
            if line.startswith('fn '):
                b.kind = 'fn'
                b.name, b.args, b.ret_ty = _parse_fn_header(line)
                for (a, t) in b.args:
                    b.local_tys[a] = t
                b.local_tys[0] = b.ret_ty
            else:
                b.kind = 'const' if line.startswith('const ') else 'static'
                s = line.split(' ', 1)[1]
                if s.startswith('mut '):
                    s = s[4:]
                k = find_top_level(s, ': ')
                b.name = s[:k]
                rest = s[k + 2:]
                e = find_top_level(rest, ' = ')
                b.ret_ty = rest[:e]
                val = rest[e + 3:]
                if val != '{':
                    assert val.endswith(';'), line
                    b.const_value = parse_operand(val[:-1])
                    b.nargs = 0
                    b.nlocals = 1
                    bodies.append(b)
                    i += 1
                    continue
            i += 1
            cur = None
            while i < n and lines[i] != '}':
                l = lines[i].strip()
                i += 1
                if not l or l.startswith('//'):
                    continue
                if l.startswith('debug '):
                    m = re.match(r'debug (.+?) => (.*);$', l)
                    if m:
                        b.debug[m.group(1)] = m.group(2)
                    continue
                if l.startswith('let '):
                    m = re.match(r'let (?:mut )?_(\d+): (.*);$', l)
                    if m:
                        b.local_tys[int(m.group(1))] = m.group(2)
                    continue
                if l.startswith('scope ') or l == '}':
                    continue
                m = re.match(r'bb(\d+)(?: \(cleanup\))?: \{$', l)
                if m:
                    cur = int(m.group(1))
                    stmts = []
                    term = None
                    cleanup = '(cleanup)' in l
                    # read until closing
                    while True:
                        l2 = lines[i].strip()
                        i += 1
                        if l2 == '}':
                            break
                        if not l2 or l2.startswith('//'):
                            continue
                        # statements may span a single line and end with ';'
                        assert l2.endswith(';'), (b.name, l2)
                        if cleanup:
                            continue
                        kind, val = parse_statement(l2[:-1])
                        if kind == 'stmt':
                            if val[0] != 'nop':
                                stmts.append(val)
                        else:
                            term = val
                    if not cleanup:
                        b.blocks[cur] = (stmts, term)
                    continue
                raise ParseError('unexpected line in body %s: %r' % (b.name, l))
            b.nargs = len(b.args)
            b.nlocals = (max(b.local_tys) + 1) if b.local_tys else 1
            bodies.append(b)
        i += 1
    return bodies


if __name__ == '__main__':
    import time
    t = time.time()
    bs = parse_mir(open(sys.argv[1]).read())
    print(len(bs), 'bodies', time.time() - t)
    nst = sum(len(s) + 1 for b in bs for (s, t_) in b.blocks.values())
    print(nst, 'statements')
