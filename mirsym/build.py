"""Front end: regenerate everything from /repo's current working tree.
 - MIR dump of the library (rustc nightly, overflow checks on)
 - mt-replay (native replay binary, dev + release) built against /repo
 - dependency tables dumped by mt-replay
Results are cached under /verif/.cache keyed by a hash of the inputs; nothing is written in /repo."""
import glob
import hashlib
import os
import shutil
import subprocess
import sys
import time

VERIF = os.path.dirname(os.path.dirname(os.path.abspath(__file__)))
REPO = os.environ.get('MEMTERM_REPO', '/repo')
CACHE = os.environ.get('MIRSYM_CACHE', os.path.join(VERIF, '.cache'))

ENV = dict(os.environ, CARGO_NET_OFFLINE='true')


def repo_hash():
    h = hashlib.sha256()
    files = sorted(glob.glob(os.path.join(REPO, 'src', '**', '*.rs'), recursive=True))
    files += [os.path.join(REPO, 'Cargo.toml'), os.path.join(REPO, 'Cargo.lock')]
    for f in files:
        h.update(f.encode())
        try:
            with open(f, 'rb') as fh:
                h.update(fh.read())
        except FileNotFoundError:
            pass
    return h.hexdigest()[:24]


def _run(cmd, cwd=None, capture=True):
    p = subprocess.run(cmd, cwd=cwd, env=ENV, stdout=subprocess.PIPE if capture else None,
                       stderr=subprocess.PIPE, text=True)
    return p


def mir_dump(log=None):
    """Return (path to mir text, seconds, from_cache)."""
    os.makedirs(CACHE, exist_ok=True)
    key = repo_hash()
    out = os.path.join(CACHE, 'mir-%s.txt' % key)
    if os.path.exists(out) and os.path.getsize(out) > 1000:
        return out, 0.0, True
    t = time.time()
    tdir = os.path.join(CACHE, 'mir-target')
    cmd = ['cargo', '+nightly', 'rustc', '--offline', '--locked', '--manifest-path', os.path.join(REPO, 'Cargo.toml'),
           '--lib', '--target-dir', tdir, '--', '-Zunpretty=mir', '-C', 'overflow-checks=on',
           '-C', 'debug-assertions=off']
    for attempt in range(2):
        p = _run(cmd)
        if p.returncode != 0:
            # --locked can fail if Cargo.lock is out of date; retry once without it
            if attempt == 0 and 'lock file' in p.stderr:
                cmd = [c for c in cmd if c != '--locked']
                continue
            sys.stderr.write(p.stderr[-4000:])
            raise SystemExit('MIR dump failed (the crate does not compile?)')
        if len(p.stdout) > 1000:
            break
        # cargo considered the crate fresh: drop its fingerprint and retry
        for d in glob.glob(os.path.join(tdir, 'debug', '.fingerprint', 'memterm-*')):
            shutil.rmtree(d, ignore_errors=True)
    else:
        raise SystemExit('MIR dump produced no output')
    tmp = out + '.tmp%d' % os.getpid()
    with open(tmp, 'w') as f:
        f.write(p.stdout)
    os.replace(tmp, out)
    # keep the cache small
    for old in glob.glob(os.path.join(CACHE, 'mir-*.txt')):
        if old != out and time.time() - os.path.getmtime(old) > 6 * 3600:
            try:
                os.remove(old)
            except OSError:
                pass
    return out, time.time() - t, False


def _write_if_changed(path, text):
    try:
        with open(path) as f:
            if f.read() == text:
                return
    except FileNotFoundError:
        pass
    with open(path, 'w') as f:
        f.write(text)


def build_replay(profiles=('dev',)):
    """Build mt-replay against /repo's current tree; returns {profile: binary path}."""
    tdir = os.path.join(CACHE, 'replay-target')
    out = {}
    # the crate is instantiated under the cache with its path dependency pointing at the repository
    # under test (normally /repo; MEMTERM_REPO overrides it for scratch copies)
    cdir = os.path.join(CACHE, 'replay-crate')
    os.makedirs(os.path.join(cdir, 'src'), exist_ok=True)
    with open(os.path.join(VERIF, 'replay', 'Cargo.toml')) as f:
        toml = f.read().replace('path = "/repo"', 'path = "%s"' % REPO)
    _write_if_changed(os.path.join(cdir, 'Cargo.toml'), toml)
    with open(os.path.join(VERIF, 'replay', 'src', 'main.rs')) as f:
        _write_if_changed(os.path.join(cdir, 'src', 'main.rs'), f.read())
    with open(os.path.join(VERIF, 'replay', 'Cargo.lock')) as f:
        _write_if_changed(os.path.join(cdir, 'Cargo.lock'), f.read())
    for prof in profiles:
        cmd = ['cargo', 'build', '--offline', '--manifest-path', os.path.join(cdir, 'Cargo.toml'),
               '--target-dir', tdir]
        if prof == 'release':
            cmd.append('--release')
        p = _run(cmd)
        if p.returncode != 0:
            sys.stderr.write(p.stderr[-4000:])
            raise SystemExit('building mt-replay failed')
        out[prof] = os.path.join(tdir, 'debug' if prof == 'dev' else 'release', 'mt-replay')
    return out


def tables_file(replay_bin):
    key = hashlib.sha256(open(os.path.join(REPO, 'Cargo.lock'), 'rb').read() +
                         open(os.path.join(VERIF, 'replay', 'src', 'main.rs'), 'rb').read()).hexdigest()[:16]
    out = os.path.join(CACHE, 'tables-%s.json' % key)
    if not os.path.exists(out) or os.path.getsize(out) < 1000:
        p = subprocess.run([replay_bin, 'tables'], stdout=subprocess.PIPE, text=True, check=True)
        tmp = out + '.tmp%d' % os.getpid()
        with open(tmp, 'w') as f:
            f.write(p.stdout)
        os.replace(tmp, out)
    return out


if __name__ == '__main__':
    t = time.time()
    m, s, c = mir_dump()
    print('mir', m, 'cached' if c else '%.1fs' % s)
    bins = build_replay(('dev', 'release'))
    print(bins)
    print(tables_file(bins['dev']))
    print('total %.1fs' % (time.time() - t))
