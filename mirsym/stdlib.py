"""Library summaries: every callee whose body is not in the MIR dump is modelled here.
Each summary is part of the claim (DESIGN.md 3.4).  Signature: f(eng, target, args, frame, dest_ty)."""
import re
import unicodedata
import z3

from .values import *
from .engine import (binop, int_eq, int_cast, bool_and, bool_or, bool_not, bool_eq, to_z3bool,
                     type_base, strip_generics, YieldSignal, _cmp)
from .mirparse import top_level_split
from . import tables

TABLE = {}


def reg(*keys):
    def deco(f):
        for k in keys:
            TABLE[k] = f
        return f
    return deco


def lookup_fallback(t):
    # trait method on any self type
    k = t.key
    if '::' in k:
        last = k.split('::')[-1]
        return TABLE.get('*::' + last)
    return None


# --------------------------------------------------------------------------- helpers

def as_str(eng, v):
    """Str behind any number of references; SChoice is forced (forks) to one alternative."""
    v = deref_all(v)
    if type(v) is SChoice:
        conds = [g for g, _ in v.alts]
        return v.alts[eng.ctx.choose(conds)][1]
    if type(v) is Str:
        return v
    if type(v) is Enum and v.ty == 'Cow':
        return as_str(eng, v.pay[v.disc][0])
    raise Unmodelled('expected str, got %r' % (v,))


def as_str_nofork(v):
    v = deref_all(v)
    if type(v) is Enum and v.ty == 'Cow':
        return as_str_nofork(v.pay[v.disc][0])
    return v


def str_eq(a, b):
    """Equality of two Str / SChoice without forking."""
    if type(a) is SChoice:
        r = False
        for g, s in a.alts:
            r = bool_or(r, bool_and(g, str_eq(s, b)))
        return r
    if type(b) is SChoice:
        return str_eq(b, a)
    if len(a.c) != len(b.c):
        return False
    r = True
    for x, y in zip(a.c, b.c):
        r = bool_and(r, int_eq(x, y))
        if r is False:
            return False
    return r


def char_utf8_len(c):
    if type(c) is int:
        return 1 if c < 0x80 else 2 if c < 0x800 else 3 if c < 0x10000 else 4
    one = lambda k: z3.BitVecVal(k, 64)
    return z3.If(z3.ULT(c, 0x80), one(1), z3.If(z3.ULT(c, 0x800), one(2), z3.If(z3.ULT(c, 0x10000), one(3), one(4))))


def str_len(eng, s):
    tot = 0
    sym = None
    for c in s.c:
        l = char_utf8_len(c)
        if type(l) is int:
            tot += l
        else:
            sym = l if sym is None else sym + l
    if sym is None:
        return Int('usize', tot)
    return Int('usize', sym + z3.BitVecVal(tot, 64))


def seq_items(eng, v):
    """Items of a slice-like value (through refs, honouring sub-slice ranges)."""
    rng = None
    while type(v) is Ref:
        if v.rng is not None:
            rng = v.rng
        v = eng.load(v)
    if type(v) is Agg:
        items = v.f
    elif type(v) is VecV:
        items = v.items
    else:
        raise Unmodelled('expected sequence, got %r' % (v,))
    if rng is not None:
        items = items[rng[0]:rng[1]]
    return items


def opt(v):
    return NONE if v is None else some(v)


def val_eq(eng, a, b):
    """Structural equality (PartialEq derive semantics) without forking where possible."""
    a = deref_all(a)
    b = deref_all(b)
    ta = type(a)
    if ta is Int:
        return int_eq(a, b)
    if ta is bool or isinstance(a, z3.BoolRef):
        return bool_eq(a, b)
    if ta is Str or ta is SChoice:
        return str_eq(a, b)
    if ta is Enum:
        if type(a.disc) is int and type(b.disc) is int:
            if a.disc != b.disc:
                return False
            r = True
            for x, y in zip(a.pay.get(a.disc, ()), b.pay.get(b.disc, ())):
                r = bool_and(r, val_eq(eng, x, y))
            return r
        # symbolic discriminants: equal discriminants and equal payloads for every variant both carry
        da = a.disc if type(a.disc) is not int else z3.BitVecVal(a.disc, 64)
        db = b.disc if type(b.disc) is not int else z3.BitVecVal(b.disc, 64)
        r = da == db
        for k in set(a.pay) | set(b.pay):
            pa, pb = a.pay.get(k), b.pay.get(k)
            if pa is None or pb is None:
                continue
            pe = True
            for x, y in zip(pa, pb):
                pe = bool_and(pe, val_eq(eng, x, y))
            r = bool_and(r, bool_or(bool_not(da == k), pe))
        return r
    if ta is Agg:
        r = True
        if len(a.f) != len(b.f):
            return False
        for x, y in zip(a.f, b.f):
            r = bool_and(r, val_eq(eng, x, y))
        return r
    if ta is VecV:
        if len(a.items) != len(b.items):
            return False
        r = True
        for x, y in zip(a.items, b.items):
            r = bool_and(r, val_eq(eng, x, y))
        return r
    raise Unmodelled('val_eq on %r' % (a,))


# --------------------------------------------------------------------------- Option / Result

def _disc_is(eng, e, k):
    """Fork on whether enum e is variant k."""
    if type(e.disc) is int:
        return e.disc == k
    return eng.ctx.branch(e.disc == z3.BitVecVal(k, 64))


@reg('Option::unwrap_or', 'Result::unwrap_or')
def _unwrap_or(eng, t, a, fr, dt):
    e = a[0]
    if _disc_is(eng, e, 1 if e.ty == 'Option' else 0):
        return e.pay[1 if e.ty == 'Option' else 0][0]
    return a[1]


@reg('Option::unwrap_or_default')
def _unwrap_or_default(eng, t, a, fr, dt):
    e = a[0]
    if _disc_is(eng, e, 1):
        return e.pay[1][0]
    g = t.self_ty or ''
    inner = g[g.index('<') + 1:g.rindex('>')].strip() if '<' in g else ''
    ib = type_base(inner) if inner else ''
    if ib == 'String' or (not inner and 'String' in g):
        return Str(())
    if ib in BITS:
        return Int(ib, 0)
    if ib == 'bool':
        return False
    if ib == 'Vec':
        return VecV()
    if ib in ('HashMap', 'HashSet', 'BTreeMap', 'BTreeSet'):
        return MapV((), 'set' if ib.endswith('Set') else 'map')
    if inner:
        # a crate type: its own Default impl
        return eng.call_path('<%s as Default>::default' % inner, [], fr.tsubst if fr else None)
    raise Unmodelled('unwrap_or_default for ' + g)


@reg('Option::unwrap', 'Option::expect')
def _opt_unwrap(eng, t, a, fr, dt):
    e = a[0]
    if _disc_is(eng, e, 1):
        return e.pay[1][0]
    if len(a) > 1:
        raise Panic(as_str(eng, a[1]).py())
    raise Panic('called `Option::unwrap()` on a `None` value')


@reg('Result::unwrap', 'Result::expect')
def _res_unwrap(eng, t, a, fr, dt):
    e = a[0]
    if _disc_is(eng, e, 0):
        return e.pay[0][0]
    raise Panic('called `Result::unwrap()` on an `Err` value')


@reg('Option::is_some')
def _is_some(eng, t, a, fr, dt):
    e = deref_all(a[0])
    if type(e.disc) is int:
        return e.disc == 1
    return e.disc == z3.BitVecVal(1, 64)


@reg('Option::is_none')
def _is_none(eng, t, a, fr, dt):
    return bool_not(_is_some(eng, t, a, fr, dt))


@reg('Option::or')
def _opt_or(eng, t, a, fr, dt):
    e = a[0]
    if _disc_is(eng, e, 1):
        return e
    return a[1]


@reg('Option::map')
def _opt_map(eng, t, a, fr, dt):
    e = a[0]
    if _disc_is(eng, e, 1):
        return some(eng.call_closure(a[1], [e.pay[1][0]], fr.tsubst if fr else None))
    return NONE


@reg('Option::and_then')
def _opt_and_then(eng, t, a, fr, dt):
    e = a[0]
    if _disc_is(eng, e, 1):
        return eng.call_closure(a[1], [e.pay[1][0]], fr.tsubst if fr else None)
    return NONE


@reg('Option::is_some_and')
def _is_some_and(eng, t, a, fr, dt):
    e = a[0]
    if _disc_is(eng, e, 1):
        return eng.call_closure(a[1], [e.pay[1][0]], fr.tsubst if fr else None)
    return False


@reg('Option::cloned', 'Option::copied')
def _opt_cloned(eng, t, a, fr, dt):
    e = a[0]
    if _disc_is(eng, e, 1):
        return some(deref_all(e.pay[1][0]))
    return NONE


# --------------------------------------------------------------------------- integers

@reg('u32::saturating_sub', 'usize::saturating_sub', 'u64::saturating_sub', 'u8::saturating_sub')
def _sat_sub(eng, t, a, fr, dt):
    x, y = a
    if x.concrete and y.concrete:
        return mk(x.ty, max(0, x.v - y.v))
    bx, by = bv(x), bv(y)
    return Int(x.ty, z3.If(z3.ULT(bx, by), z3.BitVecVal(0, BITS[x.ty]), bx - by))


@reg('u32::saturating_add', 'usize::saturating_add', 'u64::saturating_add')
def _sat_add(eng, t, a, fr, dt):
    x, y = a
    hi = (1 << BITS[x.ty]) - 1
    if x.concrete and y.concrete:
        return mk(x.ty, min(hi, x.v + y.v))
    bx, by = bv(x), bv(y)
    return Int(x.ty, z3.If(z3.BVAddNoOverflow(bx, by, False), bx + by, z3.BitVecVal(hi, BITS[x.ty])))


@reg('u32::wrapping_sub', 'usize::wrapping_sub')
def _wr_sub(eng, t, a, fr, dt):
    return binop('Sub', a[0], a[1])


@reg('u32::wrapping_add', 'usize::wrapping_add')
def _wr_add(eng, t, a, fr, dt):
    return binop('Add', a[0], a[1])


@reg('usize::checked_sub', 'u32::checked_sub', 'u64::checked_sub')
def _chk_sub(eng, t, a, fr, dt):
    x, y = a
    ok_ = _cmp('Ge', x.ty, x.v, y.v)
    if eng.ctx.branch(ok_):
        return some(binop('Sub', x, y))
    return NONE


@reg('u32::checked_add', 'usize::checked_add')
def _chk_add(eng, t, a, fr, dt):
    x, y = a
    r = binop('AddWithOverflow', x, y)
    if eng.ctx.branch(bool_not(r.f[1])):
        return some(r.f[0])
    return NONE


@reg('u32::abs_diff', 'usize::abs_diff')
def _abs_diff(eng, t, a, fr, dt):
    x, y = a
    if x.concrete and y.concrete:
        return mk(x.ty, abs(x.v - y.v))
    bx, by = bv(x), bv(y)
    return Int(x.ty, z3.If(z3.ULT(bx, by), by - bx, bx - by))


def _minmax(which):
    def f(eng, t, a, fr, dt):
        x, y = deref_all(a[0]), deref_all(a[1])
        if x.concrete and y.concrete:
            return mk(x.ty, (min if which == 'min' else max)(x.v, y.v))
        bx, by = bv(x), bv(y)
        if which == 'min':
            c = _cmp('Le', x.ty, bx, by)
        else:
            c = _cmp('Ge', x.ty, bx, by)
        # Ord::max returns the second argument when equal, but for integers that is unobservable
        return Int(x.ty, z3.If(c, bx, by))
    return f


TABLE['Ord::min'] = _minmax('min')
TABLE['Ord::max'] = _minmax('max')
TABLE['min'] = _minmax('min')
TABLE['max'] = _minmax('max')
TABLE['cmp::min'] = _minmax('min')
TABLE['cmp::max'] = _minmax('max')


@reg('Ord::clamp')
def _clamp(eng, t, a, fr, dt):
    lo = TABLE['Ord::max'](eng, t, [a[0], a[1]], fr, dt)
    return TABLE['Ord::min'](eng, t, [lo, a[2]], fr, dt)


@reg('Shl::shl')
def _shl(eng, t, a, fr, dt):
    x, y = deref_all(a[0]), deref_all(a[1])
    bits = BITS[x.ty]
    c = _cmp('Lt', 'u32', int_cast(y, 'u32').v, bits)
    if not eng.ctx.branch(c):
        raise Panic('attempt to shift left with overflow')
    return binop('Shl', x, y)


@reg('Shr::shr')
def _shr(eng, t, a, fr, dt):
    x, y = deref_all(a[0]), deref_all(a[1])
    bits = BITS[x.ty]
    c = _cmp('Lt', 'u32', int_cast(y, 'u32').v, bits)
    if not eng.ctx.branch(c):
        raise Panic('attempt to shift right with overflow')
    return binop('Shr', x, y)


@reg('PartialEq::eq', '*::eq')
def _eq(eng, t, a, fr, dt):
    return val_eq(eng, a[0], a[1])


@reg('PartialEq::ne', '*::ne')
def _ne(eng, t, a, fr, dt):
    return bool_not(val_eq(eng, a[0], a[1]))


@reg('PartialOrd::lt', 'PartialOrd::le', 'PartialOrd::gt', 'PartialOrd::ge')
def _pord(eng, t, a, fr, dt):
    x, y = deref_all(a[0]), deref_all(a[1])
    op = {'lt': 'Lt', 'le': 'Le', 'gt': 'Gt', 'ge': 'Ge'}[t.key.split('::')[-1]]
    return binop(op, x, y)


# --------------------------------------------------------------------------- Clone / Deref / misc traits

@reg('Clone::clone', '*::clone', 'ToOwned::to_owned', 'Cow::into_owned')
def _clone(eng, t, a, fr, dt):
    v = deref_all(a[0])
    if type(v) is Enum and v.ty == 'Cow':
        return deref_all(v.pay[v.disc][0])
    return v


@reg('Deref::deref', 'DerefMut::deref_mut', 'AsRef::as_ref', 'Borrow::borrow', 'String::as_str',
     'Vec::as_slice', 'String::as_mut_str', 'Vec::as_mut_slice')
def _deref(eng, t, a, fr, dt):
    r = a[0]
    v = r
    # one level only: what does the reference point at?
    if type(v) is Ref:
        v = eng.load(v)
    tv = type(v)
    if tv is ArcV:
        return Ref(v.cell, (0,))
    if tv is Guard:
        return Ref(v.mref.base, v.mref.path + (1,))
    if tv is Enum and v.ty == 'Cow':
        return v.pay[v.disc][0]
    if tv is Ref:
        return v
    # String -> str, Vec -> slice, Box -> contents: same place
    return r


@reg('Default::default')
def _default(eng, t, a, fr, dt):
    st = type_base(t.self_ty or '')
    if st == 'String':
        return Str(())
    if st in BITS:
        return Int(st, 0)
    if st == 'bool':
        return False
    if st == 'Vec':
        return VecV()
    if st in ('HashMap', 'HashSet', 'BTreeMap', 'BTreeSet'):
        return MapV((), 'set' if st.endswith('Set') else 'map')
    raise Unmodelled('Default for ' + str(t.self_ty))


@reg('From::from', 'Into::into')
def _from(eng, t, a, fr, dt):
    st = type_base(t.self_ty or '')
    v = a[0]
    if st == 'Vec':
        return VecV(tuple(deref_all(x) for x in seq_items(eng, v)))
    if st == 'String':
        return as_str_nofork(v)
    # lossless integer conversions (u32::from(x_u8), x_u8.into())
    tgt = st
    if t.key.endswith('into'):
        mi = re.search(r'Into<\s*(\w+)\s*>', t.raw or '')
        tgt = mi.group(1) if mi else None
    vv = deref_all(v)
    if tgt in BITS and (type(vv) is Int or type(vv) is bool or isinstance(vv, z3.BoolRef)):
        if type(vv) is Int and vv.ty in BITS and BITS[vv.ty] > BITS[tgt]:
            raise Unmodelled('narrowing From %s for %s' % (vv.ty, tgt))
        return int_cast(vv, tgt)
    raise Unmodelled('From for ' + str(t.self_ty))


@reg('must_use', 'hint::must_use', 'identity', 'convert::identity', 'black_box', 'hint::black_box')
def _must_use(eng, t, a, fr, dt):
    return a[0]


@reg('Box::new', 'ManuallyDrop::new')
def _box_new(eng, t, a, fr, dt):
    return a[0]


@reg('Box::new_uninit')
def _box_new_uninit(eng, t, a, fr, dt):
    cell = Cell(Agg('MaybeUninit', (UNIT, Agg('ManuallyDrop', (Agg('MaybeDangling', (None,)),)))))
    return Agg('Box', (Agg('Unique', (Ref(cell, (0,)),)),))


@reg('box_assume_init_into_vec_unsafe', 'boxed::box_assume_init_into_vec_unsafe')
def _box_into_vec(eng, t, a, fr, dt):
    r = a[0].f[0].f[0]
    arr = eng.load(r).f[1].f[0].f[0]
    return VecV(arr.f)


@reg('mem::take', 'take')
def _mem_take(eng, t, a, fr, dt):
    r = a[0]
    old = eng.load(r)
    if type(old) is Str:
        eng.store(r, Str(()))
    elif type(old) is VecV:
        eng.store(r, VecV())
    elif type(old) is MapV:
        eng.store(r, MapV((), old.kind))
    else:
        raise Unmodelled('mem::take of %r' % (old,))
    return old


@reg('mem::swap', 'swap')
def _mem_swap(eng, t, a, fr, dt):
    x, y = eng.load(a[0]), eng.load(a[1])
    eng.store(a[0], y)
    eng.store(a[1], x)
    return UNIT


@reg('mem::replace', 'replace')
def _mem_replace(eng, t, a, fr, dt):
    old = eng.load(a[0])
    eng.store(a[0], a[1])
    return old


@reg('drop', 'mem::drop')
def _drop_fn(eng, t, a, fr, dt):
    if type(a[0]) is Guard:
        unlock_guard(eng, a[0])
    return UNIT


# --------------------------------------------------------------------------- Arc / Mutex

@reg('Arc::new', 'Rc::new')
def _arc_new(eng, t, a, fr, dt):
    return ArcV(Cell(a[0], tag='arc'))


@reg('Mutex::new')
def _mutex_new(eng, t, a, fr, dt):
    return Agg('Mutex', (False, a[0]))


@reg('Mutex::lock')
def _mutex_lock(eng, t, a, fr, dt):
    mref = a[0]
    m = eng.load(mref)
    if m.f[0] is not False:
        raise Panic('DEADLOCK: Mutex::lock on a mutex already held by this thread')
    eng.store(Ref(mref.base, mref.path + (0,)), True)
    return ok(Guard(mref))


@reg('Mutex::try_lock')
def _mutex_try_lock(eng, t, a, fr, dt):
    mref = a[0]
    m = eng.load(mref)
    if m.f[0] is not False:
        return err(Opaque('WouldBlock'))
    eng.store(Ref(mref.base, mref.path + (0,)), True)
    return ok(Guard(mref))


def unlock_guard(eng, g):
    eng.store(Ref(g.mref.base, g.mref.path + (0,)), False)


# --------------------------------------------------------------------------- strings

@reg('ToString::to_string')
def _to_string(eng, t, a, fr, dt):
    v = deref_all(a[0])
    tv = type(v)
    if tv is Str or tv is SChoice:
        return v
    if tv is bool:
        return Str.of('true' if v else 'false')
    if isinstance(v, z3.BoolRef):
        return SChoice(((v, Str.of('true')), (z3.Not(v), Str.of('false'))))
    if tv is Int:
        if v.ty == 'char':
            return Str((v.v,))
        if v.concrete:
            return Str.of(str(v.v))
        return render_int(eng, v, 'display', 0, False)
    raise Unmodelled('to_string of %r' % (v,))


@reg('String::new')
def _string_new(eng, t, a, fr, dt):
    return Str(())


@reg('String::from', 'String::from_str')
def _string_from(eng, t, a, fr, dt):
    return as_str_nofork(a[0])


@reg('String::push')
def _string_push(eng, t, a, fr, dt):
    s = as_str(eng, eng.load(a[0]))
    eng.store(a[0], Str(s.c + (a[1].v,)))
    return UNIT


@reg('String::push_str')
def _string_push_str(eng, t, a, fr, dt):
    s = as_str(eng, eng.load(a[0]))
    o = as_str(eng, a[1])
    eng.store(a[0], Str(s.c + o.c))
    return UNIT


@reg('String::clear')
def _string_clear(eng, t, a, fr, dt):
    eng.store(a[0], Str(()))
    return UNIT


@reg('String::pop')
def _string_pop(eng, t, a, fr, dt):
    s = as_str(eng, eng.load(a[0]))
    if not s.c:
        return NONE
    eng.store(a[0], Str(s.c[:-1]))
    return some(Int('char', s.c[-1]))


def _op_trait(eng, op, a):
    """Integer operator traits called as functions (operands behind references: `&a % b`, `a + &b`); the
    std impls inherit the caller's overflow checks, which are on in the profile the engine models."""
    x, y = deref_all(a[0]), deref_all(a[1])
    if type(x) is not Int or type(y) is not Int:
        raise Unmodelled('%s for %r' % (op, x))
    if op in ('Add', 'Sub', 'Mul'):
        r = binop(op + 'WithOverflow', x, y)
        if eng.ctx.branch(r.f[1]):
            raise Panic('attempt to %s with overflow' % {'Add': 'add', 'Sub': 'subtract', 'Mul': 'multiply'}[op])
        return r.f[0]
    if op in ('Div', 'Rem'):
        if eng.ctx.branch(int_eq(y, 0)):
            raise Panic('attempt to divide by zero' if op == 'Div' else
                        'attempt to calculate the remainder with a divisor of zero')
        if x.ty in SIGNED:
            raise Unmodelled('signed %s through the operator trait' % op)
    return binop(op, x, y)


@reg('Add::add')
def _add(eng, t, a, fr, dt):
    x = deref_all(a[0])
    if type(x) is Str or type(x) is SChoice:
        return Str(as_str(eng, x).c + as_str(eng, a[1]).c)
    return _op_trait(eng, 'Add', a)


@reg('Sub::sub', 'Mul::mul', 'Div::div', 'Rem::rem', 'BitAnd::bitand', 'BitOr::bitor', 'BitXor::bitxor')
def _arith_trait(eng, t, a, fr, dt):
    op = t.key.split('::')[0]
    x = deref_all(a[0])
    if op.startswith('Bit') and (type(x) is bool or isinstance(x, z3.BoolRef)):
        return binop(op, x, deref_all(a[1]))
    return _op_trait(eng, op, a)


@reg('String::len', 'str::len')
def _str_len(eng, t, a, fr, dt):
    return str_len(eng, as_str(eng, a[0]))


@reg('String::is_empty', 'str::is_empty')
def _str_is_empty(eng, t, a, fr, dt):
    return len(as_str(eng, a[0]).c) == 0


@reg('str::chars', 'String::chars')
def _chars(eng, t, a, fr, dt):
    return Iter('chars', as_str(eng, a[0]), 0)


@reg('str::contains', 'String::contains')
def _str_contains(eng, t, a, fr, dt):
    h = as_str(eng, a[0])
    nv = deref_all(a[1])
    if type(nv) is Int:
        needle = (nv.v,)
    elif type(nv) is Agg and nv.name.startswith('{closure@'):
        r = False
        for c in h.c:
            r = bool_or(r, eng.call_closure(a[1], [Int('char', c)]))
        return r
    else:
        needle = as_str(eng, nv).c
    n, m = len(h.c), len(needle)
    if m == 0:
        return True
    r = False
    for i in range(0, n - m + 1):
        e = True
        for j in range(m):
            e = bool_and(e, int_eq(h.c[i + j], needle[j]))
        r = bool_or(r, e)
    return r


@reg('str::starts_with', 'String::starts_with')
def _starts_with(eng, t, a, fr, dt):
    h = as_str(eng, a[0])
    nv = deref_all(a[1])
    needle = (nv.v,) if type(nv) is Int else as_str(eng, nv).c
    if len(needle) > len(h.c):
        return False
    e = True
    for j in range(len(needle)):
        e = bool_and(e, int_eq(h.c[j], needle[j]))
    return e


@reg('str::ends_with', 'String::ends_with')
def _ends_with(eng, t, a, fr, dt):
    h = as_str(eng, a[0])
    nv = deref_all(a[1])
    needle = (nv.v,) if type(nv) is Int else as_str(eng, nv).c
    if len(needle) > len(h.c):
        return False
    e = True
    off = len(h.c) - len(needle)
    for j in range(len(needle)):
        e = bool_and(e, int_eq(h.c[off + j], needle[j]))
    return e


@reg('str::parse', 'FromStr::from_str')
def _parse(eng, t, a, fr, dt):
    target = t.generics[0] if t.generics else (type_base(t.self_ty) if t.self_ty else None)
    sv = as_str_nofork(a[0])
    if target == 'bool':
        if type(sv) is SChoice:
            # Ok(b) where b is the guard of "true" -- all alternatives must be true/false
            g = False
            for gd, s in sv.alts:
                p = s.py()
                if p == 'true':
                    g = bool_or(g, gd)
                elif p != 'false':
                    s2 = as_str(eng, sv)
                    return _parse_bool_str(s2)
            return ok(g)
        return _parse_bool_str(as_str(eng, sv))
    s = as_str(eng, sv)
    if target in BITS and target != 'char':
        return parse_uint(eng, s, target)
    raise Unmodelled('parse::<%s>' % target)


def _parse_bool_str(s):
    if s.concrete():
        p = s.py()
        if p == 'true':
            return ok(True)
        if p == 'false':
            return ok(False)
        return err(Opaque('ParseBoolError'))
    e_true = str_eq(s, Str.of('true'))
    e_false = str_eq(s, Str.of('false'))
    raise Unmodelled('parse::<bool> of symbolic string')


def parse_uint(eng, s, ty):
    ctx = eng.ctx
    chars = list(s.c)
    if not chars:
        return err(Opaque('ParseIntError', 'Empty'))
    # optional leading '+'
    c0 = chars[0]
    if ctx.branch(int_eq(c0, 43)):
        chars = chars[1:]
        if not chars:
            return err(Opaque('ParseIntError', 'InvalidDigit'))
    if ty in SIGNED:
        raise Unmodelled('parse of signed type')
    bits = BITS[ty]
    hi = (1 << bits) - 1
    acc = 0          # python int or z3 bv (wide)
    wide = bits + 8
    sym = False
    maxdigits_safe = len(str(hi)) - 1
    if len(chars) > maxdigits_safe and not all(type(c) is int for c in chars):
        # long symbolic digit strings: concretize each digit (10-way forks) to keep the arithmetic exact
        chars = [ctx.concretize(c) if type(c) is not int else c for c in chars]
    for c in chars:
        if type(c) is int:
            if not (48 <= c <= 57):
                return err(Opaque('ParseIntError', 'InvalidDigit'))
            d = c - 48
            if sym:
                acc = acc * 10 + z3.BitVecVal(d, wide)
            else:
                acc = acc * 10 + d
        else:
            isdig = z3.And(z3.UGE(c, 48), z3.ULE(c, 57))
            if not ctx.branch(isdig):
                return err(Opaque('ParseIntError', 'InvalidDigit'))
            d = z3.ZeroExt(wide - 32, c - 48)
            if not sym:
                acc = z3.BitVecVal(acc, wide)
                sym = True
            acc = acc * 10 + d
    if not sym:
        if acc > hi:
            return err(Opaque('ParseIntError', 'PosOverflow'))
        return ok(Int(ty, acc))
    # len(chars) <= maxdigits_safe: cannot overflow
    return ok(Int(ty, z3.Extract(bits - 1, 0, acc)))


@reg('char::is_ascii_digit')
def _is_ascii_digit(eng, t, a, fr, dt):
    c = deref_all(a[0])
    if c.concrete:
        return 48 <= c.v <= 57
    return z3.And(z3.UGE(c.v, 48), z3.ULE(c.v, 57))


@reg('char::is_ascii')
def _is_ascii(eng, t, a, fr, dt):
    c = deref_all(a[0])
    if c.concrete:
        return c.v < 128
    return z3.ULT(c.v, 128)


@reg('char::is_control')
def _is_control(eng, t, a, fr, dt):
    c = deref_all(a[0])
    if c.concrete:
        return c.v < 32 or 127 <= c.v < 160
    return z3.Or(z3.ULT(c.v, 32), z3.And(z3.UGE(c.v, 127), z3.ULT(c.v, 160)))


@reg('char::is_numeric', 'char::is_alphabetic', 'char::is_alphanumeric', 'char::is_whitespace', 'char::is_uppercase',
     'char::is_lowercase')
def _char_unicode_class(eng, t, a, fr, dt):
    # decided from std's own tables, dumped by mt-replay
    from . import tables
    c = deref_all(a[0])
    name = t.key.split('::')[-1]
    r = tables.char_class(name, c.v)
    if r is None:
        raise Unmodelled('no table for char::%s' % name)
    return r


@reg('char::from_u32')
def _from_u32(eng, t, a, fr, dt):
    x = a[0]
    if x.concrete:
        if x.v > 0x10FFFF or 0xD800 <= x.v <= 0xDFFF:
            return NONE
        return some(Int('char', x.v))
    okc = z3.And(z3.ULE(x.v, 0x10FFFF), z3.Or(z3.ULT(x.v, 0xD800), z3.UGT(x.v, 0xDFFF)))
    if eng.ctx.branch(okc):
        return some(Int('char', x.v))
    return NONE


@reg('char::len_utf8')
def _len_utf8(eng, t, a, fr, dt):
    return Int('usize', char_utf8_len(deref_all(a[0]).v))


@reg('from_utf8_unchecked', 'str::from_utf8_unchecked')
def _from_utf8_unchecked(eng, t, a, fr, dt):
    bs = bytes(x.v for x in seq_items(eng, a[0]))
    return Str.of(bs.decode('utf-8'))


@reg('String::from_utf8_lossy')
def _from_utf8_lossy(eng, t, a, fr, dt):
    items = [deref_all(x) for x in seq_items(eng, a[0])]
    return Enum('Cow', 1, {1: (Str(utf8_decode(eng, items, lossy_tail=True)[0]),)})


@reg('Index::index', 'IndexMut::index_mut')
def _index(eng, t, a, fr, dt):
    cont_ref = a[0]
    cont = deref_all(cont_ref)
    idx = deref_all(a[1])
    tc = type(cont)
    if tc is MapV:
        i = map_locate(eng, cont, idx)
        if i is not None and eng.ctx.branch(cont.e[i][1]):
            return _entry_ref(eng, cont_ref, cont, i)
        raise Panic('HashMap index: key not found')
    if tc is Str or tc is SChoice:
        s = as_str(eng, cont)
        if type(idx) is Agg and idx.name in ('RangeFrom', 'Range', 'RangeTo', 'RangeFull'):
            start, end = _range_bounds(eng, idx, None)
            return _str_slice(eng, s, start, end)
        raise Unmodelled('str index %r' % (idx,))
    if tc is VecV or tc is Agg:
        n = len(cont.items if tc is VecV else cont.f)
        base_rng = cont_ref.rng if type(cont_ref) is Ref else None
        if base_rng is not None:
            n = base_rng[1] - base_rng[0]
        if type(idx) is Int:
            i = idx.v
            if type(i) is not int:
                inb = z3.ULT(i, n)
                if not eng.ctx.branch(inb):
                    raise Panic('index out of bounds')
                i = eng.ctx.concretize(i)
            if i >= n:
                raise Panic('index out of bounds: the len is %d but the index is %d' % (n, i))
            r = _innermost_ref(eng, cont_ref)
            off = base_rng[0] if base_rng else 0
            return Ref(r.base, r.path + (i + off,))
        if type(idx) is Agg and idx.name in ('RangeFrom', 'Range', 'RangeTo', 'RangeFull', 'RangeInclusive'):
            start, end = _range_bounds(eng, idx, n)
            if start > end:
                raise Panic('slice index starts at %d but ends at %d' % (start, end))
            if end > n:
                raise Panic('range end index %d out of range for slice of length %d' % (end, n))
            r = _innermost_ref(eng, cont_ref)
            off = base_rng[0] if base_rng else 0
            return Ref(r.base, r.path, (start + off, end + off))
    raise Unmodelled('Index on %r with %r' % (cont, idx))


def _innermost_ref(eng, r):
    """The last Ref in a chain of references (the one whose target is not a Ref)."""
    if type(r) is not Ref:
        return Ref(Cell(r), (0,))
    while True:
        v = eng.load(r)
        if type(v) is Ref:
            r = v
        else:
            return r


def _range_bounds(eng, rg, n):
    ctx = eng.ctx
    def conc(x):
        return x.v if x.concrete else ctx.concretize(x.v)
    if rg.name == 'RangeFull':
        return 0, n
    if rg.name == 'RangeFrom':
        return conc(rg.f[0]), n
    if rg.name == 'RangeTo':
        return 0, conc(rg.f[0])
    if rg.name == 'Range':
        return conc(rg.f[0]), conc(rg.f[1])
    if rg.name == 'RangeInclusive':
        return conc(rg.f[0]), conc(rg.f[1]) + 1
    raise Unmodelled('range kind ' + rg.name)


def _str_slice(eng, s, start, end):
    """Byte-offset slicing of a Str with the char-boundary panic."""
    ctx = eng.ctx
    offs = [0]
    for c in s.c:
        l = char_utf8_len(c)
        if type(l) is not int:
            l = ctx.concretize(l)
        offs.append(offs[-1] + l)
    total = offs[-1]
    if end is None:
        end = total
    if start > end or end > total or start not in offs or end not in offs:
        raise Panic('byte index is not a char boundary or out of range')
    return Str(s.c[offs.index(start):offs.index(end)])


# --------------------------------------------------------------------------- unicode tables

@reg('UnicodeWidthChar::width')
def _width(eng, t, a, fr, dt):
    c = deref_all(a[0])
    if c.concrete:
        w = tables.width(c.v)
        return NONE if w is None else some(Int('usize', w))
    low = eng.ctx.branch(z3.ULT(c.v, tables.SPLIT))
    conds = tables.width_class_conds(c.v, low)   # [(cond, width or None)]
    i = eng.ctx.choose([cd for cd, _ in conds])
    w = conds[i][1]
    return NONE if w is None else some(Int('usize', w))


@reg('is_combining_mark', 'char::is_combining_mark')
def _is_combining(eng, t, a, fr, dt):
    c = deref_all(a[0])
    if c.concrete:
        return tables.is_combining(c.v)
    low = eng.ctx.branch(z3.ULT(c.v, tables.SPLIT))
    return tables.combining_cond(c.v, low)


@reg('UnicodeNormalization::nfc')
def _nfc(eng, t, a, fr, dt):
    return Iter('nfc', as_str(eng, a[0]))


# --------------------------------------------------------------------------- Vec / slices

@reg('Vec::new', 'Vec::with_capacity')
def _vec_new(eng, t, a, fr, dt):
    return VecV()


@reg('Vec::push')
def _vec_push(eng, t, a, fr, dt):
    v = eng.load(a[0])
    eng.store(a[0], VecV(v.items + (a[1],)))
    return UNIT


@reg('Vec::pop')
def _vec_pop(eng, t, a, fr, dt):
    v = eng.load(a[0])
    if not v.items:
        return NONE
    eng.store(a[0], VecV(v.items[:-1]))
    return some(v.items[-1])


@reg('Vec::len', '[]::len')
def _vec_len(eng, t, a, fr, dt):
    return Int('usize', len(seq_items(eng, a[0])))


@reg('Vec::is_empty', '[]::is_empty')
def _vec_is_empty(eng, t, a, fr, dt):
    return len(seq_items(eng, a[0])) == 0


@reg('Vec::clear')
def _vec_clear(eng, t, a, fr, dt):
    eng.store(a[0], VecV())
    return UNIT


@reg('Vec::extend_from_slice')
def _vec_extend_from_slice(eng, t, a, fr, dt):
    v = eng.load(a[0])
    eng.store(a[0], VecV(v.items + tuple(deref_all(x) for x in seq_items(eng, a[1]))))
    return UNIT


@reg('Vec::truncate')
def _vec_truncate(eng, t, a, fr, dt):
    v = eng.load(a[0])
    n = a[1].v if a[1].concrete else eng.ctx.concretize(a[1].v)
    if n < len(v.items):
        eng.store(a[0], VecV(v.items[:n]))
    return UNIT


@reg('Vec::insert')
def _vec_insert(eng, t, a, fr, dt):
    v = eng.load(a[0])
    i = a[1].v if a[1].concrete else eng.ctx.concretize(a[1].v)
    if i > len(v.items):
        raise Panic('insertion index out of bounds')
    eng.store(a[0], VecV(v.items[:i] + (a[2],) + v.items[i:]))
    return UNIT


@reg('Vec::remove')
def _vec_remove(eng, t, a, fr, dt):
    v = eng.load(a[0])
    i = a[1].v if a[1].concrete else eng.ctx.concretize(a[1].v)
    if i >= len(v.items):
        raise Panic('removal index out of bounds')
    eng.store(a[0], VecV(v.items[:i] + v.items[i + 1:]))
    return v.items[i]


@reg('Vec::last', '[]::last')
def _vec_last(eng, t, a, fr, dt):
    items = seq_items(eng, a[0])
    if not items:
        return NONE
    r = _innermost_ref(eng, a[0])
    return some(Ref(r.base, r.path + (len(items) - 1 + (r.rng[0] if r.rng else 0),)))


@reg('[]::first', 'Vec::first')
def _vec_first(eng, t, a, fr, dt):
    items = seq_items(eng, a[0])
    if not items:
        return NONE
    r = _innermost_ref(eng, a[0])
    return some(Ref(r.base, r.path + ((r.rng[0] if r.rng else 0),)))


@reg('[]::get', 'Vec::get')
def _slice_get(eng, t, a, fr, dt):
    items = seq_items(eng, a[0])
    i = a[1]
    if type(i) is not Int:
        raise Unmodelled('slice get with range')
    iv = i.v
    if type(iv) is not int:
        if not eng.ctx.branch(z3.ULT(iv, len(items))):
            return NONE
        iv = eng.ctx.concretize(iv)
    if iv >= len(items):
        return NONE
    r = _innermost_ref(eng, a[0])
    return some(Ref(r.base, r.path + (iv + (r.rng[0] if r.rng else 0),)))


@reg('[]::iter', 'Vec::iter', '[]::iter_mut', 'Vec::iter_mut')
def _slice_iter(eng, t, a, fr, dt):
    r = _innermost_ref(eng, a[0])
    n = len(seq_items(eng, r))
    off = r.rng[0] if r.rng else 0
    return Iter('slice', Ref(r.base, r.path), off, off + n)


@reg('[]::to_vec', '[]::to_owned')
def _to_vec(eng, t, a, fr, dt):
    return VecV(tuple(deref_all(x) if type(x) is not Ref else x for x in seq_items(eng, a[0])))


@reg('[]::reverse')
def _reverse(eng, t, a, fr, dt):
    r = _innermost_ref(eng, a[0])
    v = eng.load(r)
    if type(v) is VecV:
        eng.store(r, VecV(v.items[::-1]))
    else:
        eng.store(r, Agg(v.name, v.f[::-1]))
    return UNIT


@reg('[]::copy_from_slice', '[]::clone_from_slice')
def _copy_from_slice(eng, t, a, fr, dt):
    # destination: the container behind the reference chain and the sub-range the slice covers
    rng = None
    v = a[0]
    while type(v) is Ref:
        if v.rng is not None:
            rng = v.rng
        v = eng.load(v)
    r = _innermost_ref(eng, a[0])
    cont = eng.load(r)
    src = tuple(deref_all(x) for x in seq_items(eng, a[1]))
    items = cont.items if type(cont) is VecV else cont.f
    lo, hi = rng if rng is not None else (0, len(items))
    if hi - lo != len(src):
        raise Panic('copy_from_slice: source slice length (%d) does not match destination slice length (%d)'
                    % (len(src), hi - lo))
    new = tuple(items[:lo]) + src + tuple(items[hi:])
    eng.store(r, VecV(new) if type(cont) is VecV else Agg(cont.name, new))
    return UNIT


@reg('[]::contains')
def _slice_contains(eng, t, a, fr, dt):
    x = a[1]
    r = False
    for it in seq_items(eng, a[0]):
        r = bool_or(r, val_eq(eng, it, x))
        if r is True:
            return True
    return r


@reg('[]::sort', '[]::sort_unstable')
def _sort(eng, t, a, fr, dt):
    r = _innermost_ref(eng, a[0])
    v = eng.load(r)
    items = list(v.items if type(v) is VecV else v.f)
    # insertion sort; comparisons on symbolic keys fork
    out = []
    for it in items:
        key = deref_all(it)
        pos = len(out)
        for k in range(len(out)):
            ok_ = deref_all(out[k])
            if eng.ctx.branch(_cmp('Lt', key.ty, key.v, ok_.v)):
                pos = k
                break
        out.insert(pos, it)
    if type(v) is VecV:
        eng.store(r, VecV(out))
    else:
        eng.store(r, Agg(v.name, out))
    return UNIT


# --------------------------------------------------------------------------- maps and sets

def key_eq(a, b):
    a = deref_all(a)
    b = deref_all(b)
    if type(a) is Int:
        return int_eq(a, b)
    if type(a) is Str or type(a) is SChoice:
        return str_eq(a, b)
    raise Unmodelled('map key %r' % (a,))


def map_locate(eng, m, key):
    """Index of the entry whose key equals `key` on this path (forks), or None."""
    key = deref_all(key)
    if type(key) is Int and type(key.v) is not int and len(m.e) > 4:
        key = eng.ctx.resolve_int(key)
    if type(key) is Int and type(key.v) is int and len(m.e) > 4:
        d, sym = m.index()
        if not sym:
            hit = d.get(key.v)
            return hit[0] if hit else None
    conds = []
    for (k, p, v) in m.e:
        conds.append(key_eq(k, key))
    # exhaustive: none matches
    anym = False
    for c in conds:
        anym = bool_or(anym, c)
    conds.append(bool_not(anym))
    i = eng.ctx.choose(conds)
    if i == len(m.e):
        return None
    return i


def entry_present(eng, r, m, i):
    """Fork on the presence of entry i of the map at r; on the 'present' side the state is refined
    (presence becomes True: the path condition implies it).  Returns python bool."""
    k, p, v = m.e[i]
    if p is True:
        return True
    if p is False:
        return False
    if eng.ctx.branch(p):
        eng.store(r, MapV(m.e[:i] + ((k, True, v),) + m.e[i + 1:], m.kind))
        return True
    eng.store(r, MapV(m.e[:i] + m.e[i + 1:], m.kind))
    return None   # absent: entry dropped, indices after i shifted


def _entry_ref(eng, mref, m, i):
    r = _innermost_ref(eng, mref)
    return Ref(r.base, r.path + (('m', i),))


def map_contains(eng, m, key):
    key = deref_all(key)
    if eng is not None and type(key) is Int and type(key.v) is not int and len(m.e) > 4:
        key = eng.ctx.resolve_int(key)
    if type(key) is Int and type(key.v) is int and len(m.e) > 4:
        d, sym = m.index()
        if not sym:
            r = False
            for i in d.get(key.v, ()):
                r = bool_or(r, m.e[i][1])
            return r
    r = False
    for (k, p, v) in m.e:
        r = bool_or(r, bool_and(p, key_eq(k, key)))
        if r is True:
            return True
    return r


@reg('HashMap::new', 'HashSet::new', 'BTreeMap::new', 'BTreeSet::new', 'HashMap::with_capacity',
     'HashSet::with_capacity')
def _map_new(eng, t, a, fr, dt):
    return MapV((), 'set' if 'Set' in t.key else 'map')


def _map_insert(eng, mref, key, val):
    """-> (old_present_bool, old_value)"""
    r = _innermost_ref(eng, mref)
    m = eng.load(r)
    key = deref_all(key) if type(key) is Ref else key
    if type(key) is Int and type(key.v) is not int:
        key = eng.ctx.resolve_int(key)
    i = map_locate(eng, m, key)
    if i is None:
        eng.store(r, MapV(m.e + ((key, True, val),), m.kind))
        return False, None
    k, p, old = m.e[i]
    eng.store(r, MapV(m.e[:i] + ((k, True, val),) + m.e[i + 1:], m.kind))
    return p, old


@reg('HashMap::insert', 'BTreeMap::insert')
def _hm_insert(eng, t, a, fr, dt):
    p, old = _map_insert(eng, a[0], a[1], a[2])
    if p is False:
        return NONE
    if p is True:
        return some(old)
    if eng.ctx.branch(p):
        return some(old)
    return NONE


@reg('HashSet::insert', 'BTreeSet::insert')
def _hs_insert(eng, t, a, fr, dt):
    p, old = _map_insert(eng, a[0], a[1], UNIT)
    return bool_not(p)


@reg('HashMap::get', 'HashMap::get_mut', 'BTreeMap::get', 'BTreeMap::get_mut')
def _hm_get(eng, t, a, fr, dt):
    r = _innermost_ref(eng, a[0])
    m = eng.load(r)
    i = map_locate(eng, m, a[1])
    if i is None:
        return NONE
    if not entry_present(eng, r, m, i):
        return NONE
    return some(Ref(r.base, r.path + (('m', i),)))


@reg('HashMap::contains_key', 'HashSet::contains', 'BTreeMap::contains_key', 'BTreeSet::contains')
def _hm_contains(eng, t, a, fr, dt):
    m = deref_all(a[0])
    return map_contains(eng, m, a[1])


@reg('HashMap::remove', 'BTreeMap::remove')
def _hm_remove(eng, t, a, fr, dt):
    r = _innermost_ref(eng, a[0])
    m = eng.load(r)
    i = map_locate(eng, m, a[1])
    if i is None:
        return NONE
    k, p, v = m.e[i]
    eng.store(r, MapV(m.e[:i] + m.e[i + 1:], m.kind))
    if eng.ctx.branch(p):
        return some(v)
    return NONE


@reg('HashSet::remove', 'BTreeSet::remove')
def _hs_remove(eng, t, a, fr, dt):
    r = _innermost_ref(eng, a[0])
    m = eng.load(r)
    i = map_locate(eng, m, a[1])
    if i is None:
        return False
    k, p, v = m.e[i]
    eng.store(r, MapV(m.e[:i] + m.e[i + 1:], m.kind))
    return p


@reg('HashMap::clear', 'HashSet::clear', 'BTreeMap::clear')
def _hm_clear(eng, t, a, fr, dt):
    r = _innermost_ref(eng, a[0])
    m = eng.load(r)
    eng.store(r, MapV((), m.kind))
    return UNIT


@reg('HashSet::retain', 'BTreeSet::retain')
def _hs_retain(eng, t, a, fr, dt):
    r = _innermost_ref(eng, a[0])
    m = eng.load(r)
    out = []
    for (k, p, v) in m.e:
        if p is False:
            continue
        keep = eng.call_closure(a[1], [Ref(Cell(k), (0,))], fr.tsubst if fr else None)
        np = bool_and(p, keep)
        if np is not False:
            out.append((k, np, v))
    eng.store(r, MapV(tuple(out), m.kind))
    return UNIT


@reg('HashMap::retain', 'BTreeMap::retain')
def _hm_retain(eng, t, a, fr, dt):
    r = _innermost_ref(eng, a[0])
    m = eng.load(r)
    idxs = present_indices(eng, m)
    out = []
    for i in idxs:
        k, p, v = m.e[i]
        cell = Cell(v)
        keep = eng.call_closure(a[1], [Ref(Cell(k), (0,)), Ref(cell, (0,))], fr.tsubst if fr else None)
        if eng.ctx.branch(keep):
            out.append((k, True, cell.v))
    eng.store(r, MapV(tuple(out), m.kind))
    return UNIT


@reg('Vec::retain')
def _vec_retain(eng, t, a, fr, dt):
    r = _innermost_ref(eng, a[0])
    v = eng.load(r)
    out = []
    for it in v.items:
        keep = eng.call_closure(a[1], [Ref(Cell(it), (0,))], fr.tsubst if fr else None)
        if eng.ctx.branch(keep):
            out.append(it)
    eng.store(r, VecV(out))
    return UNIT


@reg('HashMap::len', 'HashSet::len')
def _hm_len(eng, t, a, fr, dt):
    m = deref_all(a[0])
    return Int('usize', len(present_indices(eng, m)))


@reg('HashMap::is_empty', 'HashSet::is_empty')
def _hm_is_empty(eng, t, a, fr, dt):
    m = deref_all(a[0])
    r = True
    for (k, p, v) in m.e:
        r = bool_and(r, bool_not(p))
    return r


@reg('HashMap::entry')
def _hm_entry(eng, t, a, fr, dt):
    r = _innermost_ref(eng, a[0])
    return Opaque('Entry', (r, a[1]))


def _entry_or_insert(eng, ent, mk_default):
    r, key = ent.data
    m = eng.load(r)
    key = deref_all(key) if type(key) is Ref else key
    if type(key) is Int and type(key.v) is not int:
        key = eng.ctx.resolve_int(key)
    i = map_locate(eng, m, key)
    if i is not None and entry_present(eng, r, m, i):
        return Ref(r.base, r.path + (('m', i),))
    val = mk_default()
    m = eng.load(r)
    eng.store(r, MapV(m.e + ((key, True, val),), m.kind))
    return Ref(r.base, r.path + (('m', len(m.e)),))


@reg('Entry::or_insert')
def _or_insert(eng, t, a, fr, dt):
    return _entry_or_insert(eng, a[0], lambda: a[1])


@reg('Entry::or_insert_with')
def _or_insert_with(eng, t, a, fr, dt):
    return _entry_or_insert(eng, a[0], lambda: eng.call_closure(a[1], [], fr.tsubst if fr else None))


@reg('Entry::or_default')
def _or_default(eng, t, a, fr, dt):
    def mkd():
        g = t.self_ty or ''
        k = g.find('<')
        if k < 0:
            raise Unmodelled('or_default for ' + g)
        args = top_level_split(g[k + 1:g.rindex('>')], ', ')
        vty = args[-1].strip()
        return eng.call_path('<%s as Default>::default' % vty, [], fr.tsubst if fr else None)
    return _entry_or_insert(eng, a[0], mkd)


def present_indices(eng, m):
    """Indices of present entries on this path (forks on symbolic presence)."""
    out = []
    for i, (k, p, v) in enumerate(m.e):
        if p is True or eng.ctx.branch(p):
            out.append(i)
    return out


def _iter_order(eng, idxs, m):
    # deterministic engine order: ascending concrete key where possible, else entry order
    try:
        return sorted(idxs, key=lambda i: m.e[i][0].v if type(m.e[i][0]) is Int and m.e[i][0].concrete else 1 << 70)
    except Exception:
        return idxs


@reg('HashMap::values_mut', 'HashMap::values')
def _values_mut(eng, t, a, fr, dt):
    r = _innermost_ref(eng, a[0])
    m = eng.load(r)
    idxs = _iter_order(eng, present_indices(eng, m), m)
    return Iter('list', tuple(Ref(r.base, r.path + (('m', i),)) for i in idxs), 0)


@reg('HashMap::iter_mut', 'HashMap::iter')
def _iter_mut(eng, t, a, fr, dt):
    r = _innermost_ref(eng, a[0])
    m = eng.load(r)
    idxs = _iter_order(eng, present_indices(eng, m), m)
    return Iter('list', tuple(Agg('tuple', (m.e[i][0], Ref(r.base, r.path + (('m', i),)))) for i in idxs), 0)


@reg('HashMap::keys')
def _keys(eng, t, a, fr, dt):
    m = deref_all(a[0])
    idxs = _iter_order(eng, present_indices(eng, m), m)
    return Iter('list', tuple(m.e[i][0] for i in idxs), 0)


@reg('HashSet::iter')
def _set_iter(eng, t, a, fr, dt):
    m = deref_all(a[0])
    # guarded iteration: presence stays symbolic for filter/cloned/collect pipelines; a consumer that
    # needs the concrete element list forces it (forks)
    return Iter('gset', tuple((k, p) for (k, p, v) in m.e), 0)


def force_gset(eng, it):
    items = []
    for (k, p) in it.s[0]:
        if p is True or eng.ctx.branch(p):
            items.append(k)
    try:
        items.sort(key=lambda k: k.v if type(k) is Int and k.concrete else 1 << 70)
    except Exception:
        pass
    return Iter('list', tuple(items), 0)


@reg('Extend::extend')
def _extend(eng, t, a, fr, dt):
    r = _innermost_ref(eng, a[0])
    tgt = eng.load(r)
    src = a[1]
    if type(tgt) is MapV:
        it = to_iter(eng, src)
        while True:
            it, item = iter_next(eng, it)
            if item is None:
                break
            item = deref_all(item) if type(item) is Ref else item
            if tgt.kind == 'set':
                _map_insert(eng, r, item, UNIT)
            else:
                _map_insert(eng, r, item.f[0], item.f[1])
        return UNIT
    if type(tgt) is VecV:
        it = to_iter(eng, src)
        out = list(tgt.items)
        while True:
            it, item = iter_next(eng, it)
            if item is None:
                break
            out.append(item)
        eng.store(r, VecV(out))
        return UNIT
    if type(tgt) is Str:
        it = to_iter(eng, src)
        out = list(tgt.c)
        while True:
            it, item = iter_next(eng, it)
            if item is None:
                break
            item = deref_all(item)
            if type(item) is Int:
                out.append(item.v)
            else:
                out.extend(as_str(eng, item).c)
        eng.store(r, Str(out))
        return UNIT
    raise Unmodelled('extend of %r' % (tgt,))


# --------------------------------------------------------------------------- iterators

def to_iter(eng, v):
    if type(v) is Ref:
        tgt = eng.load(v)
        if type(tgt) in (VecV,) or (type(tgt) is Agg and tgt.name == '[]'):
            n = len(seq_items(eng, v))
            r = _innermost_ref(eng, v)
            off = r.rng[0] if r.rng else 0
            return Iter('slice', Ref(r.base, r.path), off, off + n)
        if type(tgt) is MapV:
            return _iter_mut(eng, None, [v], None, None) if tgt.kind == 'map' else _set_iter(eng, None, [v], None, None)
        v = tgt
    tv = type(v)
    if tv is Iter:
        return v
    if tv is Agg and v.name in ('Range', 'RangeInclusive'):
        return v
    if tv is VecV:
        return Iter('list', v.items, 0)
    if tv is Agg and v.name == '[]':
        return Iter('list', v.f, 0)
    if tv is MapV:
        idxs = present_indices(eng, v)
        if v.kind == 'set':
            return Iter('list', tuple(v.e[i][0] for i in idxs), 0)
        return Iter('list', tuple(Agg('tuple', (v.e[i][0], v.e[i][2])) for i in idxs), 0)
    if tv is Enum and v.ty == 'Option':
        if _disc_is(eng, v, 1):
            return Iter('list', (v.pay[1][0],), 0)
        return Iter('list', (), 0)
    raise Unmodelled('into_iter of %r' % (v,))


@reg('IntoIterator::into_iter', 'Iterator::by_ref')
def _into_iter(eng, t, a, fr, dt):
    return to_iter(eng, a[0])


@reg('RangeInclusive::new')
def _ri_new(eng, t, a, fr, dt):
    return Agg('RangeInclusive', (a[0], a[1], False))


def _range_next(eng, rg):
    s, e = rg.f
    if eng.ctx.branch(_cmp('Lt', s.ty, s.v, e.v)):
        return Agg('Range', (binop('Add', s, Int(s.ty, 1)), e)), s
    return rg, None


def _range_next_back(eng, rg):
    s, e = rg.f
    if eng.ctx.branch(_cmp('Lt', s.ty, s.v, e.v)):
        e2 = binop('Sub', e, Int(e.ty, 1))
        return Agg('Range', (s, e2)), e2
    return rg, None


def _ri_next(eng, rg, back=False):
    s, e, ex = rg.f
    if ex is not False:
        if ex is True or eng.ctx.branch(ex):
            return rg, None
    if not eng.ctx.branch(_cmp('Le', s.ty, s.v, e.v)):
        return rg, None
    if eng.ctx.branch(_cmp('Lt', s.ty, s.v, e.v)):
        if back:
            return Agg('RangeInclusive', (s, binop('Sub', e, Int(e.ty, 1)), False)), e
        return Agg('RangeInclusive', (binop('Add', s, Int(s.ty, 1)), e, False)), s
    return Agg('RangeInclusive', (s, e, True)), (e if back else s)


def iter_next(eng, it):
    """-> (new iterator state, item or None)."""
    if type(it) is Agg:
        if it.name == 'Range':
            return _range_next(eng, it)
        if it.name == 'RangeInclusive':
            return _ri_next(eng, it)
        raise Unmodelled('iter_next on %r' % (it,))
    k = it.kind
    s = it.s
    if k == 'list':
        items, pos = s
        if pos < len(items):
            return Iter('list', items, pos + 1), items[pos]
        return it, None
    if k == 'slice':
        r, pos, end = s
        if pos < end:
            return Iter('slice', r, pos + 1, end), Ref(r.base, r.path + (pos,))
        return it, None
    if k == 'chars':
        st, pos = s
        if pos < len(st.c):
            return Iter('chars', st, pos + 1), Int('char', st.c[pos])
        return it, None
    if k == 'rev':
        inner = s[0]
        if type(inner) is Agg and inner.name == 'Range':
            n, item = _range_next_back(eng, inner)
        elif type(inner) is Agg and inner.name == 'RangeInclusive':
            n, item = _ri_next(eng, inner, back=True)
        elif type(inner) is Iter and inner.kind == 'list':
            items, pos = inner.s
            if pos < len(items):
                return Iter('rev', Iter('list', items[:-1], pos)), items[-1]
            return it, None
        elif type(inner) is Iter and inner.kind == 'slice':
            r, pos, end = inner.s
            if pos < end:
                return Iter('rev', Iter('slice', r, pos, end - 1)), Ref(r.base, r.path + (end - 1,))
            return it, None
        elif type(inner) is Iter and inner.kind == 'chars':
            st, pos = inner.s
            if pos < len(st.c):
                return Iter('rev', Iter('chars', Str(st.c[:-1]), pos)), Int('char', st.c[-1])
            return it, None
        else:
            raise Unmodelled('rev of %r' % (inner,))
        return Iter('rev', n), item
    if k == 'map':
        inner, clo, ts = s
        n, item = iter_next(eng, inner)
        if item is None:
            return Iter('map', n, clo, ts), None
        return Iter('map', n, clo, ts), eng.call_closure(clo, [item], ts)
    if k == 'filter':
        inner, clo, ts = s
        while True:
            inner, item = iter_next(eng, inner)
            if item is None:
                return Iter('filter', inner, clo, ts), None
            keep = eng.call_closure(clo, [Ref(Cell(item), (0,))], ts)
            if eng.ctx.branch(keep):
                return Iter('filter', inner, clo, ts), item
    if k == 'cloned':
        n, item = iter_next(eng, s[0])
        if item is None:
            return Iter('cloned', n), None
        return Iter('cloned', n), deref_all(item)
    if k == 'skip':
        inner, cnt = s
        cnt = cnt if type(cnt) is int else (cnt.v if cnt.concrete else eng.ctx.concretize(cnt.v))
        while cnt > 0:
            inner, item = iter_next(eng, inner)
            cnt -= 1
            if item is None:
                return Iter('skip', inner, 0), None
        n, item = iter_next(eng, inner)
        return Iter('skip', n, 0), item
    if k == 'take':
        inner, cnt = s
        if type(cnt) is Int:
            z = int_eq(cnt, 0)
        else:
            z = cnt == 0
        if eng.ctx.branch(z):
            return it, None
        n, item = iter_next(eng, inner)
        c2 = binop('Sub', cnt, Int(cnt.ty, 1)) if type(cnt) is Int else cnt - 1
        return Iter('take', n, c2), item
    if k == 'step_by':
        inner, step, first = s
        if first:
            n, item = iter_next(eng, inner)
            return Iter('step_by', n, step, False), item
        # nth(step-1)
        item = None
        for _ in range(step):
            inner, item = iter_next(eng, inner)
            if item is None:
                break
        return Iter('step_by', inner, step, False), item
    if k == 'enumerate':
        inner, idx = s
        n, item = iter_next(eng, inner)
        if item is None:
            return Iter('enumerate', n, idx), None
        return Iter('enumerate', n, idx + 1), Agg('tuple', (Int('usize', idx), item))
    if k == 'chain':
        a_, b_ = s
        if a_ is not None:
            a_, item = iter_next(eng, a_)
            if item is not None:
                return Iter('chain', a_, b_), item
        b_, item = iter_next(eng, b_)
        return Iter('chain', None, b_), item
    if k == 'gset':
        return iter_next(eng, force_gset(eng, it))
    if k == 'gfilter' or k == 'gcloned':
        return iter_next(eng, force_gset(eng, _gset_eval(eng, it)))
    if k == 'nfc':
        st = s[0]
        if not st.concrete():
            if len(st.c) == 1 and not eng.ctx.branch(tables.nfc_unstable_cond(st.c[0])):
                return iter_next(eng, Iter('chars', st, 0))
            raise Unmodelled('nfc of symbolic string')
        return iter_next(eng, Iter('chars', Str.of(tables.nfc(st.py())), 0))
    raise Unmodelled('iter_next kind ' + k)


def _gset_has_cloned(it):
    while type(it) is Iter and it.kind in ('gfilter', 'gcloned'):
        if it.kind == 'gcloned':
            return True
        it = it.s[0]
    return False


def _gset_eval(eng, it):
    """Evaluate a gset/gfilter/gcloned pipeline into a plain gset (no forking on presence)."""
    if it.kind == 'gset':
        return it
    if it.kind == 'gcloned':
        return _gset_eval(eng, it.s[0])
    if it.kind == 'gfilter':
        inner = _gset_eval(eng, it.s[0])
        clo, ts = it.s[1], it.s[2]
        # items of a set iterator are references (the predicate sees `&&T`); after `.copied()` / `.cloned()`
        # they are values (the predicate sees `&T`)
        by_value = _gset_has_cloned(it.s[0])
        out = []
        for (k, p) in inner.s[0]:
            if p is False:
                continue
            arg = Ref(Cell(k), (0,)) if by_value else Ref(Cell(Ref(Cell(k), (0,))), (0,))
            keep = eng.call_closure(clo, [arg], ts)
            out.append((k, bool_and(p, keep)))
        return Iter('gset', tuple(out), 0)
    raise Unmodelled('gset pipeline ' + it.kind)


@reg('Iterator::next')
def _it_next(eng, t, a, fr, dt):
    r = a[0]
    it = eng.load(r)
    n, item = iter_next(eng, it)
    eng.store(r, n)
    return opt(item)


@reg('DoubleEndedIterator::next_back')
def _it_next_back(eng, t, a, fr, dt):
    r = a[0]
    it = eng.load(r)
    n, item = iter_next(eng, Iter('rev', it))
    eng.store(r, n.s[0])
    return opt(item)


@reg('Iterator::rev')
def _it_rev(eng, t, a, fr, dt):
    return Iter('rev', to_iter(eng, a[0]))


@reg('Iterator::map')
def _it_map(eng, t, a, fr, dt):
    return Iter('map', to_iter(eng, a[0]), a[1], fr.tsubst if fr else None)


@reg('Iterator::filter')
def _it_filter(eng, t, a, fr, dt):
    src = to_iter(eng, a[0])
    if type(src) is Iter and src.kind in ('gset', 'gfilter', 'gcloned'):
        return Iter('gfilter', src, a[1], fr.tsubst if fr else None)
    return Iter('filter', src, a[1], fr.tsubst if fr else None)


@reg('Iterator::cloned', 'Iterator::copied')
def _it_cloned(eng, t, a, fr, dt):
    src = to_iter(eng, a[0])
    if type(src) is Iter and src.kind in ('gset', 'gfilter', 'gcloned'):
        return Iter('gcloned', src)
    return Iter('cloned', src)


@reg('Iterator::skip')
def _it_skip(eng, t, a, fr, dt):
    return Iter('skip', to_iter(eng, a[0]), a[1])


@reg('Iterator::take')
def _it_take(eng, t, a, fr, dt):
    return Iter('take', to_iter(eng, a[0]), a[1])


@reg('Iterator::step_by')
def _it_step_by(eng, t, a, fr, dt):
    st = a[1].v if a[1].concrete else eng.ctx.concretize(a[1].v)
    if st == 0:
        raise Panic('assertion failed: step != 0')
    return Iter('step_by', to_iter(eng, a[0]), st, True)


@reg('Iterator::enumerate')
def _it_enumerate(eng, t, a, fr, dt):
    return Iter('enumerate', to_iter(eng, a[0]), 0)


@reg('Iterator::chain')
def _it_chain(eng, t, a, fr, dt):
    return Iter('chain', to_iter(eng, a[0]), to_iter(eng, a[1]))


@reg('Iterator::any')
def _it_any(eng, t, a, fr, dt):
    r = a[0]
    it = eng.load(r) if type(r) is Ref else r
    it = to_iter(eng, it)
    acc = False
    while True:
        it, item = iter_next(eng, it)
        if item is None:
            break
        res = eng.call_closure(a[1], [item], fr.tsubst if fr else None)
        if res is True:
            acc = True
            break
        acc = bool_or(acc, res)
    if type(r) is Ref:
        eng.store(r, it)
    return acc


@reg('Iterator::all')
def _it_all(eng, t, a, fr, dt):
    r = a[0]
    it = to_iter(eng, eng.load(r) if type(r) is Ref else r)
    acc = True
    while True:
        it, item = iter_next(eng, it)
        if item is None:
            break
        res = eng.call_closure(a[1], [item], fr.tsubst if fr else None)
        if res is False:
            acc = False
            break
        acc = bool_and(acc, res)
    if type(r) is Ref:
        eng.store(r, it)
    return acc


@reg('Iterator::nth')
def _it_nth(eng, t, a, fr, dt):
    r = a[0]
    it = eng.load(r)
    n = a[1].v if a[1].concrete else eng.ctx.concretize(a[1].v)
    item = None
    for _ in range(n + 1):
        it, item = iter_next(eng, it)
        if item is None:
            break
    eng.store(r, it)
    return opt(item)


@reg('Iterator::count')
def _it_count(eng, t, a, fr, dt):
    it = to_iter(eng, a[0])
    n = 0
    while True:
        it, item = iter_next(eng, it)
        if item is None:
            return Int('usize', n)
        n += 1


@reg('Iterator::last')
def _it_last(eng, t, a, fr, dt):
    it = to_iter(eng, a[0])
    last = None
    while True:
        it, item = iter_next(eng, it)
        if item is None:
            return opt(last)
        last = item


@reg('Iterator::collect')
def _collect(eng, t, a, fr, dt):
    target = t.generics[0] if t.generics else (dt or '')
    tb = type_base(target)
    it = to_iter(eng, a[0])
    if type(it) is Iter and it.kind == 'nfc':
        s = it.s[0]
        if not s.concrete():
            if len(s.c) == 1:
                # a single character is its own NFC unless it is one of the ~1100 singleton decompositions
                if eng.ctx.branch(tables.nfc_unstable_cond(s.c[0])):
                    raise Unmodelled('nfc of symbolic string (singleton decomposition)')
                return s
            raise Unmodelled('nfc of symbolic string')
        return Str.of(tables.nfc(s.py()))
    if tb == 'HashSet' and type(it) is Iter and it.kind in ('gset', 'gfilter', 'gcloned'):
        g = _gset_eval(eng, it)
        return MapV(tuple((k, p, UNIT) for (k, p) in g.s[0] if p is not False), 'set')
    items = []
    while True:
        it, item = iter_next(eng, it)
        if item is None:
            break
        items.append(item)
    if tb == 'Vec':
        return VecV(items)
    if tb == 'String':
        out = []
        for x in items:
            x = deref_all(x)
            if type(x) is Int:
                out.append(x.v)
            else:
                out.extend(as_str(eng, x).c)
        return Str(out)
    if tb == 'HashSet':
        cell = Cell(MapV((), 'set'))
        for x in items:
            _map_insert(eng, Ref(cell, (0,)), deref_all(x), UNIT)
        return cell.v
    if tb == 'HashMap':
        cell = Cell(MapV((), 'map'))
        for x in items:
            _map_insert(eng, Ref(cell, (0,)), x.f[0], x.f[1])
        return cell.v
    raise Unmodelled('collect::<%s>' % target)


@reg('Fn::call', 'FnMut::call_mut', 'FnOnce::call_once')
def _fn_call(eng, t, a, fr, dt):
    return eng.call_closure(a[0], list(a[1].f), fr.tsubst if fr else None)


# --------------------------------------------------------------------------- formatting / panics / printing

class FmtArgs:
    __slots__ = ('template', 'args', 'lit')

    def __init__(self, template=None, args=(), lit=None):
        self.template = template
        self.args = args
        self.lit = lit


@reg('Arguments::from_str', 'Arguments::new_const')
def _args_from_str(eng, t, a, fr, dt):
    v = deref_all(a[0])
    if type(v) is Str:
        return Opaque('Arguments', FmtArgs(lit=v))
    # &[&str; 1]
    parts = [as_str(eng, x) for x in seq_items(eng, a[0])]
    return Opaque('Arguments', FmtArgs(lit=Str(tuple(c for p in parts for c in p.c))))


@reg('Arguments::new')
def _args_new(eng, t, a, fr, dt):
    tmpl = bytes(x.v for x in seq_items(eng, a[0]))
    args = tuple(deref_all(x) for x in seq_items(eng, a[1]))
    return Opaque('Arguments', FmtArgs(template=tmpl, args=args))


@reg('Argument::new_display', 'Argument::new_debug', 'Argument::new_lower_hex', 'Argument::new_upper_hex')
def _argument_new(eng, t, a, fr, dt):
    kind = t.key.split('::')[-1][4:]
    return Opaque('Argument', (kind, deref_all(a[0])))


def render_int(eng, v, kind, width, zero):
    """Render an Int per Display / LowerHex; symbolic values fork on the number of digits."""
    base = 16 if kind in ('lower_hex', 'upper_hex') else 10
    if v.concrete:
        x = v.v
        if base == 16:
            x &= (1 << BITS[v.ty]) - 1
            s = '%x' % x if kind == 'lower_hex' else '%X' % x
        else:
            s = str(x)
        if len(s) < width:
            s = ('0' if zero else ' ') * (width - len(s)) + s
        return Str.of(s)
    if v.ty in SIGNED:
        raise Unmodelled('formatting symbolic signed integer')
    bits = BITS[v.ty]
    x = v.v
    # number of digits
    maxd = 1
    while base ** maxd <= (1 << bits) - 1:
        maxd += 1
    conds = []
    for d in range(1, maxd + 1):
        lo = 0 if d == 1 else base ** (d - 1)
        hi = base ** d - 1
        c = z3.And(z3.UGE(x, lo), z3.ULE(x, min(hi, (1 << bits) - 1)))
        conds.append(c)
    nd = eng.ctx.choose(conds) + 1
    chars = []
    for i in range(nd - 1, -1, -1):
        if base == 16:
            dig = z3.Extract(3, 0, z3.LShR(x, 4 * i))
            dig = z3.ZeroExt(28, dig)
            a0 = 87 if kind == 'lower_hex' else 55
            chars.append(z3.If(z3.ULT(dig, 10), dig + 48, dig + a0))
        else:
            dig = z3.URem(z3.UDiv(x, z3.BitVecVal(10 ** i, bits)), z3.BitVecVal(10, bits))
            if bits < 32:
                dig = z3.ZeroExt(32 - bits, dig)
            elif bits > 32:
                dig = z3.Extract(31, 0, dig)
            chars.append(dig + 48)
    pad = max(0, width - nd)
    return Str(tuple([48 if zero else 32] * pad + chars))


def render_arg(eng, arg, width, zero):
    kind, v = arg.data
    if type(v) is Int:
        if v.ty == 'char':
            return Str((v.v,))
        return render_int(eng, v, kind, width, zero)
    if type(v) is Str or type(v) is SChoice:
        s = as_str(eng, v)
        if kind == 'debug':
            return Str.of('"' + s.py() + '"')
        return s
    if type(v) is bool:
        return Str.of('true' if v else 'false')
    return Str.of('<%s>' % type(v).__name__)


def render(eng, fa):
    if fa.lit is not None:
        return fa.lit
    t = fa.template
    out = []
    i = 0
    argi = 0
    while i < len(t):
        b = t[i]
        if b == 0:
            break
        if b < 0x80:
            out.extend(ord(ch) for ch in t[i + 1:i + 1 + b].decode('utf-8'))
            i += 1 + b
            continue
        if b == 0x80:
            ln = t[i + 1] | (t[i + 2] << 8)
            out.extend(ord(ch) for ch in t[i + 3:i + 3 + ln].decode('utf-8'))
            i += 3 + ln
            continue
        assert b & 0xC0 == 0xC0
        i += 1
        flags = 0
        width = 0
        if b & 1:
            flags = int.from_bytes(t[i:i + 4], 'little')
            i += 4
        if b & 2:
            width = int.from_bytes(t[i:i + 2], 'little')
            i += 2
        if b & 4:
            i += 2
        if b & 8:
            argi = int.from_bytes(t[i:i + 2], 'little')
            i += 2
        if b & 16:
            width = 0
        zero = bool(flags & (1 << 24))
        out.extend(render_arg(eng, fa.args[argi], width, zero).c)
        argi += 1
    return Str(out)


@reg('format', 'fmt::format')
def _format(eng, t, a, fr, dt):
    return render(eng, a[0].data)


@reg('_print', 'io::_print', '_eprint', 'io::_eprint')
def _print(eng, t, a, fr, dt):
    return UNIT


@reg('panic_fmt', 'rt::panic_fmt', 'panicking::panic_fmt')
def _panic_fmt(eng, t, a, fr, dt):
    try:
        msg = render(eng, a[0].data).py()
    except Exception:
        msg = '<unrenderable panic message>'
    raise Panic(msg)


@reg('panic', 'panicking::panic', 'panic_explicit', 'panicking::panic_explicit', 'rt::begin_panic',
     'panicking::unreachable_display', 'panicking::panic_display', 'panic_display')
def _panic(eng, t, a, fr, dt):
    msg = 'explicit panic'
    if a:
        try:
            msg = as_str(eng, a[0]).py()
        except Exception:
            pass
    raise Panic(msg)


@reg('Formatter::write_fmt', 'Formatter::write_str', 'Formatter::debug_struct_field2_finish',
     'Formatter::debug_struct_fields_finish')
def _fmt_noop(eng, t, a, fr, dt):
    return ok(UNIT)


# --------------------------------------------------------------------------- generator-rs (trusted semantics)

@reg('Gn::new_scoped', 'Gn::new_scoped_opt')
def _gn_new_scoped(eng, t, a, fr, dt):
    co = Coroutine()
    co.closure = a[-1] if type(a[-1]) is Agg else a[0]
    co.tsubst = dict(fr.tsubst) if fr else {}
    return Opaque('Generator', co)


@reg('GeneratorObj::send', 'GeneratorImpl::send')
def _gen_send(eng, t, a, fr, dt):
    g = deref_all(a[0])
    co = g.data
    return eng.co_resume(co, a[1])


@reg('GeneratorObj::resume', 'Iterator::next@Generator')
def _gen_resume(eng, t, a, fr, dt):
    g = deref_all(a[0])
    co = g.data
    return opt(eng.co_resume(co, None))


@reg('GeneratorObj::is_done')
def _gen_is_done(eng, t, a, fr, dt):
    return deref_all(a[0]).data.done


# --------------------------------------------------------------------------- encoding_rs (specification-level summary)

def utf8_decode(eng, bs, lossy_tail=True, want_pending=False):
    """WHATWG UTF-8 decode with replacement over a list of Int('u8') (possibly symbolic).
    Returns (chars, had_errors).  Forks on the byte classes.  lossy_tail: an incomplete sequence at
    the end yields one U+FFFD (one-shot decode semantics)."""
    ctx = eng.ctx
    out = []
    err_ = False
    i = 0
    n = len(bs)

    def inr(b, lo, hi):
        if b.concrete:
            return lo <= b.v <= hi
        return z3.And(z3.UGE(b.v, lo), z3.ULE(b.v, hi))

    def ext(b):
        return b.v if b.concrete else z3.ZeroExt(24, b.v)

    while i < n:
        b0 = bs[i]
        classes = [inr(b0, 0x00, 0x7F), inr(b0, 0xC2, 0xDF), inr(b0, 0xE0, 0xE0), inr(b0, 0xE1, 0xEC),
                   inr(b0, 0xED, 0xED), inr(b0, 0xEE, 0xEF), inr(b0, 0xF0, 0xF0), inr(b0, 0xF1, 0xF3),
                   inr(b0, 0xF4, 0xF4)]
        anyc = False
        for c in classes:
            anyc = bool_or(anyc, c)
        classes.append(bool_not(anyc))
        k = ctx.choose(classes)
        if k == 0:
            out.append(ext(b0))
            i += 1
            continue
        if k == 9:
            out.append(0xFFFD)
            err_ = True
            i += 1
            continue
        need = 1 if k == 1 else 2 if k <= 5 else 3
        lo2, hi2 = 0x80, 0xBF
        if k == 2:
            lo2 = 0xA0
        elif k == 4:
            hi2 = 0x9F
        elif k == 6:
            lo2 = 0x90
        elif k == 8:
            hi2 = 0x8F
        cont = []
        bad = False
        incomplete = False
        j = i + 1
        for m in range(need):
            if j >= n:
                bad = True
                incomplete = True
                break
            bj = bs[j]
            lo, hi = (lo2, hi2) if m == 0 else (0x80, 0xBF)
            if ctx.branch(inr(bj, lo, hi)):
                cont.append(bj)
                j += 1
            else:
                bad = True
                break
        if bad and incomplete and not lossy_tail:
            # streaming: a so-far well-formed but unfinished sequence is held back
            if want_pending:
                return out, err_, list(bs[i:])
            return out, err_
        if bad:
            # maximal subpart: the bytes consumed so far form one U+FFFD; the offending byte is re-examined
            out.append(0xFFFD)
            err_ = True
            i = j
            continue
        e0 = ext(b0)
        if need == 1:
            cp = ((e0 & 0x1F) << 6) | (ext(cont[0]) & 0x3F)
        elif need == 2:
            cp = ((e0 & 0x0F) << 12) | ((ext(cont[0]) & 0x3F) << 6) | (ext(cont[1]) & 0x3F)
        else:
            cp = ((e0 & 0x07) << 18) | ((ext(cont[0]) & 0x3F) << 12) | ((ext(cont[1]) & 0x3F) << 6) | (ext(cont[2]) & 0x3F)
        out.append(cp)
        i = j
    if want_pending:
        return out, err_, []
    return out, err_


@reg('Encoding::decode_with_bom_removal')
def _decode_with_bom_removal(eng, t, a, fr, dt):
    bs = [deref_all(x) for x in seq_items(eng, a[1])]
    ctx = eng.ctx
    if len(bs) >= 3:
        isbom = bool_and(bool_and(int_eq(bs[0], 0xEF), int_eq(bs[1], 0xBB)), int_eq(bs[2], 0xBF))
        if ctx.branch(isbom):
            bs = bs[3:]
    chars, e = utf8_decode(eng, bs)
    return Agg('tuple', (Enum('Cow', 1, {1: (Str(chars),)}), e))


@reg('Encoding::decode_without_bom_handling')
def _decode_without_bom(eng, t, a, fr, dt):
    bs = [deref_all(x) for x in seq_items(eng, a[1])]
    chars, e = utf8_decode(eng, bs)
    return Agg('tuple', (Enum('Cow', 1, {1: (Str(chars),)}), e))


@reg('Encoding::decode')
def _decode(eng, t, a, fr, dt):
    r = _decode_with_bom_removal(eng, t, a, fr, dt)
    return Agg('tuple', (r.f[0], a[0], r.f[1]))


# streaming Decoder API of encoding_rs (what a repaired ByteParser uses)

@reg('Encoding::new_decoder_without_bom_handling', 'Encoding::new_decoder', 'Encoding::new_decoder_with_bom_removal')
def _new_decoder(eng, t, a, fr, dt):
    bom = 'sniff' if t.key.endswith('new_decoder') else ('remove' if t.key.endswith('removal') else 'none')
    return Agg('Decoder', (VecV(), bom, True))


def _decoder_needed(pending_len, n):
    """encoding_rs utf_8.rs: max_utf8_buffer_length(n) = 3 + 3 * (n + extra_from_state()), where
    extra_from_state() = bytes_seen + 1 = number of bytes held from the previous call (0 if none)."""
    return binop('Add', binop('Mul', binop('Add', n, Int('usize', pending_len)), Int('usize', 3)), Int('usize', 3))


@reg('Decoder::max_utf8_buffer_length')
def _max_utf8_len(eng, t, a, fr, dt):
    dec = deref_all(a[0])
    return some(_decoder_needed(len(dec.f[0].items), a[1]))


@reg('Decoder::max_utf8_buffer_length_without_replacement')
def _max_utf8_len_wr(eng, t, a, fr, dt):
    dec = deref_all(a[0])
    return some(binop('Add', a[1], Int('usize', 3 + len(dec.f[0].items))))


@reg('String::with_capacity')
def _string_with_capacity(eng, t, a, fr, dt):
    st = Str(())
    caps = getattr(eng, 'str_caps', None)
    if caps is None:
        caps = eng.str_caps = {}
    caps[id(st)] = (st, a[0])     # the object is kept alive so the id stays unique
    return st


def ers_stream_decode(eng, pending, src, room, last):
    """Model of encoding_rs 0.8 `Decoder::decode_to_utf8` for UTF-8 (utf_8.rs + macros.rs + handles.rs):
    byte-at-a-time state machine with the fast path `copy_utf8_up_to_invalid_from`, the space check
    `check_space_astral` (4 free bytes) before every byte of the slow path, and the unchecked 3-byte
    U+FFFD write after a malformed sequence.  Returns (chars, new_pending, result 0|1, read, had_errors).
    Validated against the real crate for small capacities in C11's prelude."""
    ctx = eng.ctx

    def inr(b, lo, hi):
        if b.concrete:
            return lo <= b.v <= hi
        return ctx.branch(z3.And(z3.UGE(b.v, lo), z3.ULE(b.v, hi)))

    def ext(b):
        return b.v if b.concrete else z3.ZeroExt(24, b.v)

    # decoder state from the bytes held since the previous call (a valid unfinished prefix)
    need = seen = 0
    lo, hi = 0x80, 0xBF
    cp = None
    held = list(pending)
    if held:
        b = held[0]
        if inr(b, 0xC2, 0xDF):
            need, cp = 1, ext(b) & 0x1F
        elif inr(b, 0xE0, 0xEF):
            need, cp = 2, ext(b) & 0x0F
            if inr(b, 0xE0, 0xE0):
                lo = 0xA0
            elif inr(b, 0xED, 0xED):
                hi = 0x9F
        else:
            need, cp = 3, ext(b) & 0x07
            if inr(b, 0xF0, 0xF0):
                lo = 0x90
            elif inr(b, 0xF4, 0xF4):
                hi = 0x8F
        for b in held[1:]:
            cp = (cp << 6) | (ext(b) & 0x3F)
            seen += 1
            lo, hi = 0x80, 0xBF
    out = []
    had = False
    i = 0
    n = len(src)
    left = room

    def valid_prefix(k0, limit):
        """number of bytes of src[k0:k0+limit] forming complete well-formed sequences; also their chars"""
        k = k0
        chars = []
        end = k0 + limit
        while k < end:
            b0 = src[k]
            if inr(b0, 0x00, 0x7F):
                chars.append(ext(b0))
                k += 1
                continue
            if inr(b0, 0xC2, 0xDF):
                nn, l2, h2, c0 = 1, 0x80, 0xBF, ext(b0) & 0x1F
            elif inr(b0, 0xE0, 0xEF):
                nn, l2, h2, c0 = 2, 0x80, 0xBF, ext(b0) & 0x0F
                if inr(b0, 0xE0, 0xE0):
                    l2 = 0xA0
                elif inr(b0, 0xED, 0xED):
                    h2 = 0x9F
            elif inr(b0, 0xF0, 0xF4):
                nn, l2, h2, c0 = 3, 0x80, 0xBF, ext(b0) & 0x07
                if inr(b0, 0xF0, 0xF0):
                    l2 = 0x90
                elif inr(b0, 0xF4, 0xF4):
                    h2 = 0x8F
            else:
                break
            if k + 1 + nn > end:
                break       # the sequence does not fit into the window: not copied by the fast path
            okc = True
            c = c0
            for m in range(nn):
                bj = src[k + 1 + m]
                l_, h_ = (l2, h2) if m == 0 else (0x80, 0xBF)
                if not inr(bj, l_, h_):
                    okc = False
                    break
                c = (c << 6) | (ext(bj) & 0x3F)
            if not okc:
                break
            chars.append(c)
            k += 1 + nn
        return k - k0, chars

    result = 0
    while True:
        # ---- decode_to_utf8_raw
        malformed = False
        while True:
            if need == 0:
                window = min(n - i, max(left, 0))
                if window > 0:
                    k, chars = valid_prefix(i, window)
                    out.extend(chars)
                    i += k
                    left -= k
            if i == n:
                if last and need != 0:
                    need = seen = 0
                    cp = None
                    lo, hi = 0x80, 0xBF
                    held = []
                    malformed = True
                    break
                break
            if left < 4:
                result = 1
                break
            b = src[i]
            i += 1
            if need == 0:
                if inr(b, 0x00, 0x7F):
                    out.append(ext(b))
                    left -= 1
                    continue
                if inr(b, 0x80, 0xC1):
                    malformed = True
                    break
                if inr(b, 0xC2, 0xDF):
                    need, cp, held = 1, ext(b) & 0x1F, [b]
                    continue
                if inr(b, 0xE0, 0xEF):
                    if inr(b, 0xE0, 0xE0):
                        lo = 0xA0
                    elif inr(b, 0xED, 0xED):
                        hi = 0x9F
                    need, cp, held = 2, ext(b) & 0x0F, [b]
                    continue
                if inr(b, 0xF0, 0xF4):
                    if inr(b, 0xF0, 0xF0):
                        lo = 0x90
                    elif inr(b, 0xF4, 0xF4):
                        hi = 0x8F
                    need, cp, held = 3, ext(b) & 0x07, [b]
                    continue
                malformed = True
                break
            if not inr(b, lo, hi):
                need = seen = 0
                cp = None
                lo, hi = 0x80, 0xBF
                held = []
                i -= 1          # unread
                malformed = True
                break
            lo, hi = 0x80, 0xBF
            cp = (cp << 6) | (ext(b) & 0x3F)
            seen += 1
            held.append(b)
            if seen != need:
                continue
            out.append(cp)
            left -= 4 if need == 3 else char_len_of(eng, cp)
            need = seen = 0
            cp = None
            held = []
        if not malformed:
            break
        had = True
        if left < 3:
            raise Panic('index out of bounds in encoding_rs::Decoder::decode_to_utf8 (no room for U+FFFD)')
        out.append(0xFFFD)
        left -= 3
    return out, (held if need else []), result, i, had


def char_len_of(eng, cp):
    l = char_utf8_len(cp)
    if type(l) is int:
        return l
    return eng.ctx.concretize(l)


@reg('Decoder::decode_to_string')
def _decode_to_string(eng, t, a, fr, dt):
    dref, src, dst, last = a
    dec = eng.load(dref)
    pending, bom, at_start = dec.f
    if at_start == 'finished':
        raise Panic('Must not use a decoder that has finished.')
    src_items = [deref_all(x) for x in seq_items(eng, src)]
    d0 = eng.load(dst)
    ent = getattr(eng, 'str_caps', {}).get(id(d0))
    cap = ent[1] if ent is not None and ent[0] is d0 else Int('usize', 0)
    used = str_len(eng, as_str(eng, d0))
    capv = cap.v if cap.concrete else eng.ctx.concretize(cap.v)
    usedv = used.v if used.concrete else eng.ctx.concretize(used.v)
    room = max(capv - usedv, 0)
    lastv = last if type(last) is bool else eng.ctx.branch(last)
    skipped = 0
    if bom != 'none' and at_start is True and src_items:
        # Decoder::new_decoder() / new_decoder_with_bom_removal(): the first bytes of the stream are sniffed
        ctx = eng.ctx
        b = src_items
        if len(b) < 3:
            maybe = bool_or(int_eq(b[0], 0xEF), bool_or(int_eq(b[0], 0xFF), int_eq(b[0], 0xFE))) if bom == 'sniff' \
                else int_eq(b[0], 0xEF)
            if ctx.branch(maybe):
                raise Unmodelled('a possible byte-order mark split across feeds of a BOM-sniffing Decoder')
        else:
            if ctx.branch(bool_and(bool_and(int_eq(b[0], 0xEF), int_eq(b[1], 0xBB)), int_eq(b[2], 0xBF))):
                src_items = src_items[3:]
                skipped = 3
            elif bom == 'sniff' and ctx.branch(bool_or(bool_and(int_eq(b[0], 0xFF), int_eq(b[1], 0xFE)),
                                                       bool_and(int_eq(b[0], 0xFE), int_eq(b[1], 0xFF)))):
                raise Unmodelled('a UTF-16 byte-order mark switches a BOM-sniffing Decoder to UTF-16')
    chars, pend, result, read, had = ers_stream_decode(eng, list(pending.items), src_items, room, lastv)
    read += skipped
    # encoding_rs: after a call with last == true that consumed all input the decoder is finished
    eng.store(dref, Agg('Decoder', (VecV(pend), bom, 'finished' if (lastv and result == 0) else False)))
    cur = as_str(eng, d0)
    newstr = Str(cur.c + tuple(chars))
    if ent is not None:
        eng.str_caps[id(newstr)] = (newstr, cap)
    eng.store(dst, newstr)
    return Agg('tuple', (Enum('CoderResult', result), Int('usize', read), had))


# --------------------------------------------------------------------------- further std methods a plausible edit may use

@reg('Range::contains', 'RangeInclusive::contains', 'RangeFrom::contains', 'RangeTo::contains', 'RangeBounds::contains')
def _range_contains(eng, t, a, fr, dt):
    rg = deref_all(a[0])
    x = deref_all(a[1])
    ty = x.ty
    if rg.name == 'Range':
        return bool_and(_cmp('Le', ty, rg.f[0].v, x.v), _cmp('Lt', ty, x.v, rg.f[1].v))
    if rg.name == 'RangeInclusive':
        r = bool_and(_cmp('Le', ty, rg.f[0].v, x.v), _cmp('Le', ty, x.v, rg.f[1].v))
        return bool_and(r, bool_not(rg.f[2])) if rg.f[2] is not False else r
    if rg.name == 'RangeFrom':
        return _cmp('Le', ty, rg.f[0].v, x.v)
    if rg.name == 'RangeTo':
        return _cmp('Lt', ty, x.v, rg.f[0].v)
    raise Unmodelled('contains on ' + rg.name)


@reg('Range::is_empty', 'RangeInclusive::is_empty')
def _range_is_empty(eng, t, a, fr, dt):
    rg = deref_all(a[0])
    ty = rg.f[0].ty
    if rg.name == 'Range':
        return bool_not(_cmp('Lt', ty, rg.f[0].v, rg.f[1].v))
    return bool_or(rg.f[2], bool_not(_cmp('Le', ty, rg.f[0].v, rg.f[1].v)))


@reg('[]::is_ascii', 'str::is_ascii', 'String::is_ascii')
def _is_ascii_seq(eng, t, a, fr, dt):
    v = deref_all(a[0])
    if type(v) in (Str, SChoice):
        items = [Int('char', c) for c in as_str(eng, v).c]
    else:
        items = [deref_all(x) for x in seq_items(eng, a[0])]
    r = True
    for x in items:
        r = bool_and(r, _cmp('Lt', x.ty, x.v, 128))
    return r


@reg('u8::is_ascii')
def _u8_is_ascii(eng, t, a, fr, dt):
    x = deref_all(a[0])
    return _cmp('Lt', x.ty, x.v, 128)


@reg('Option::take')
def _opt_take(eng, t, a, fr, dt):
    old = eng.load(a[0])
    eng.store(a[0], NONE)
    return old


@reg('Option::replace')
def _opt_replace(eng, t, a, fr, dt):
    old = eng.load(a[0])
    eng.store(a[0], some(a[1]))
    return old


@reg('Option::insert', 'Option::get_or_insert')
def _opt_insert(eng, t, a, fr, dt):
    old = eng.load(a[0])
    if t.key.endswith('get_or_insert') and _disc_is(eng, old, 1):
        pass
    else:
        eng.store(a[0], some(a[1]))
    r = a[0]
    return Ref(r.base, r.path + (('dc', 'Some'), 0))


@reg('Option::filter')
def _opt_filter(eng, t, a, fr, dt):
    e = a[0]
    if _disc_is(eng, e, 1):
        keep = eng.call_closure(a[1], [Ref(Cell(e.pay[1][0]), (0,))], fr.tsubst if fr else None)
        if eng.ctx.branch(keep):
            return e
    return NONE


@reg('Option::unwrap_or_else', 'Result::unwrap_or_else')
def _unwrap_or_else(eng, t, a, fr, dt):
    e = a[0]
    okv = 1 if e.ty == 'Option' else 0
    if _disc_is(eng, e, okv):
        return e.pay[okv][0]
    args = [] if e.ty == 'Option' else [e.pay[1][0]]
    return eng.call_closure(a[1], args, fr.tsubst if fr else None)


@reg('Option::map_or')
def _opt_map_or(eng, t, a, fr, dt):
    e = a[0]
    if _disc_is(eng, e, 1):
        return eng.call_closure(a[2], [e.pay[1][0]], fr.tsubst if fr else None)
    return a[1]


@reg('Option::map_or_else')
def _opt_map_or_else(eng, t, a, fr, dt):
    e = a[0]
    if _disc_is(eng, e, 1):
        return eng.call_closure(a[2], [e.pay[1][0]], fr.tsubst if fr else None)
    return eng.call_closure(a[1], [], fr.tsubst if fr else None)


@reg('Option::is_none_or')
def _opt_is_none_or(eng, t, a, fr, dt):
    e = a[0]
    if _disc_is(eng, e, 1):
        return eng.call_closure(a[1], [e.pay[1][0]], fr.tsubst if fr else None)
    return True


@reg('Option::or_else')
def _opt_or_else(eng, t, a, fr, dt):
    e = a[0]
    if _disc_is(eng, e, 1):
        return e
    return eng.call_closure(a[1], [], fr.tsubst if fr else None)


@reg('Option::and')
def _opt_and(eng, t, a, fr, dt):
    if _disc_is(eng, a[0], 1):
        return a[1]
    return NONE


@reg('Option::xor')
def _opt_xor(eng, t, a, fr, dt):
    x, y = _disc_is(eng, a[0], 1), _disc_is(eng, a[1], 1)
    if x and not y:
        return a[0]
    if y and not x:
        return a[1]
    return NONE


@reg('Option::ok_or')
def _opt_ok_or(eng, t, a, fr, dt):
    if _disc_is(eng, a[0], 1):
        return ok(a[0].pay[1][0])
    return err(a[1])


@reg('Option::as_ref', 'Option::as_mut', 'Option::as_deref')
def _opt_as_ref(eng, t, a, fr, dt):
    r = a[0]
    e = eng.load(r) if type(r) is Ref else r
    if _disc_is(eng, e, 1):
        if type(r) is Ref:
            return some(Ref(r.base, r.path + (('dc', 'Some'), 0)))
        return some(e.pay[1][0])
    return NONE


@reg('Option::unwrap_unchecked')
def _opt_unwrap_unchecked(eng, t, a, fr, dt):
    return _opt_unwrap(eng, t, a, fr, dt)


@reg('Result::ok')
def _res_ok(eng, t, a, fr, dt):
    if _disc_is(eng, a[0], 0):
        return some(a[0].pay[0][0])
    return NONE


@reg('Result::is_ok')
def _res_is_ok(eng, t, a, fr, dt):
    e = deref_all(a[0])
    return e.disc == 0 if type(e.disc) is int else e.disc == z3.BitVecVal(0, 64)


@reg('Result::is_err')
def _res_is_err(eng, t, a, fr, dt):
    return bool_not(_res_is_ok(eng, t, a, fr, dt))


@reg('Result::map')
def _res_map(eng, t, a, fr, dt):
    if _disc_is(eng, a[0], 0):
        return ok(eng.call_closure(a[1], [a[0].pay[0][0]], fr.tsubst if fr else None))
    return a[0]


@reg('u32::pow', 'usize::pow', 'u64::pow', 'i32::pow')
def _pow(eng, t, a, fr, dt):
    x, y = a
    e = y.v if y.concrete else eng.ctx.concretize(y.v)
    r = Int(x.ty, 1)
    for _ in range(e):
        m = binop('MulWithOverflow', r, x)
        if not eng.ctx.branch(bool_not(m.f[1])):
            raise Panic('attempt to multiply with overflow')
        r = m.f[0]
    return r


@reg('u32::checked_mul', 'usize::checked_mul')
def _chk_mul(eng, t, a, fr, dt):
    m = binop('MulWithOverflow', a[0], a[1])
    if eng.ctx.branch(bool_not(m.f[1])):
        return some(m.f[0])
    return NONE


@reg('u32::wrapping_mul', 'usize::wrapping_mul')
def _wr_mul(eng, t, a, fr, dt):
    return binop('Mul', a[0], a[1])


@reg('u32::saturating_mul', 'usize::saturating_mul')
def _sat_mul(eng, t, a, fr, dt):
    m = binop('MulWithOverflow', a[0], a[1])
    hi = (1 << BITS[a[0].ty]) - 1
    if type(m.f[1]) is bool:
        return Int(a[0].ty, hi) if m.f[1] else m.f[0]
    return Int(a[0].ty, z3.If(m.f[1], z3.BitVecVal(hi, BITS[a[0].ty]), bv(m.f[0])))


@reg('u32::is_power_of_two')
def _is_pow2(eng, t, a, fr, dt):
    x = a[0]
    if x.concrete:
        return x.v != 0 and (x.v & (x.v - 1)) == 0
    return z3.And(x.v != 0, (x.v & (x.v - 1)) == 0)


@reg('u32::div_ceil', 'usize::div_ceil')
def _div_ceil(eng, t, a, fr, dt):
    x, y = a
    if not eng.ctx.branch(bool_not(int_eq(y, 0))):
        raise Panic('attempt to divide by zero')
    q = binop('Div', x, y)
    r = binop('Rem', x, y)
    nz = bool_not(int_eq(r, 0))
    if type(nz) is bool:
        return binop('Add', q, Int(x.ty, 1)) if nz else q
    return Int(x.ty, z3.If(nz, bv(q) + 1, bv(q)))


@reg('char::to_digit')
def _to_digit(eng, t, a, fr, dt):
    c = deref_all(a[0])
    radix = a[1].v
    if radix != 10:
        raise Unmodelled('to_digit radix %r' % radix)
    isd = _cmp('Ge', 'u32', c.v, 48)
    isd = bool_and(isd, _cmp('Le', 'u32', c.v, 57))
    if eng.ctx.branch(isd):
        return some(Int('u32', (c.v - 48)))
    return NONE


@reg('char::is_ascii_control', 'char::is_ascii_graphic', 'char::is_ascii_alphabetic', 'char::is_ascii_alphanumeric',
     'char::is_ascii_punctuation', 'char::is_ascii_uppercase', 'char::is_ascii_lowercase', 'char::is_ascii_hexdigit',
     'char::is_ascii_whitespace')
def _char_ascii_class(eng, t, a, fr, dt):
    c = deref_all(a[0]).v
    kind = t.key.split('is_ascii_')[1]
    rngs = {'control': [(0, 31), (127, 127)], 'graphic': [(33, 126)], 'alphabetic': [(65, 90), (97, 122)],
            'alphanumeric': [(48, 57), (65, 90), (97, 122)], 'uppercase': [(65, 90)], 'lowercase': [(97, 122)],
            'hexdigit': [(48, 57), (65, 70), (97, 102)], 'whitespace': [(9, 10), (12, 13), (32, 32)],
            'punctuation': [(33, 47), (58, 64), (91, 96), (123, 126)]}[kind]
    r = False
    for lo, hi in rngs:
        r = bool_or(r, bool_and(_cmp('Ge', 'u32', c, lo), _cmp('Le', 'u32', c, hi)))
    return r


@reg('str::trim_start_matches', 'str::trim_end_matches', 'str::trim_matches')
def _trim_matches(eng, t, a, fr, dt):
    s = as_str(eng, a[0])
    pv = deref_all(a[1])
    if type(pv) is Int:
        pat = pv.v
    else:
        ps = as_str(eng, pv)
        if len(ps.c) != 1:
            raise Unmodelled('trim_*_matches with a multi-character pattern')
        pat = ps.c[0]
    chars = list(s.c)
    if 'start' in t.key or t.key.endswith('trim_matches'):
        while chars and eng.ctx.branch(int_eq(chars[0], pat)):
            chars.pop(0)
    if 'end' in t.key or t.key.endswith('trim_matches'):
        while chars and eng.ctx.branch(int_eq(chars[-1], pat)):
            chars.pop()
    return Str(chars)


@reg('str::strip_prefix', 'str::strip_suffix')
def _strip_prefix(eng, t, a, fr, dt):
    s = as_str(eng, a[0])
    pv = deref_all(a[1])
    pat = (pv.v,) if type(pv) is Int else as_str(eng, pv).c
    n = len(pat)
    if n > len(s.c):
        return NONE
    pre = t.key.endswith('prefix')
    seg = s.c[:n] if pre else s.c[len(s.c) - n:]
    e = True
    for x, y in zip(seg, pat):
        e = bool_and(e, int_eq(x, y))
    if eng.ctx.branch(e):
        return some(Str(s.c[n:] if pre else s.c[:len(s.c) - n]))
    return NONE


@reg('str::to_string', 'str::to_owned', 'String::to_string')
def _str_to_string(eng, t, a, fr, dt):
    return as_str_nofork(a[0])


@reg('String::insert')
def _string_insert(eng, t, a, fr, dt):
    s = as_str(eng, eng.load(a[0]))
    off = a[1].v if a[1].concrete else eng.ctx.concretize(a[1].v)
    pre = _str_slice(eng, s, 0, off)
    eng.store(a[0], Str(pre.c + (a[2].v,) + s.c[len(pre.c):]))
    return UNIT


@reg('String::truncate')
def _string_truncate(eng, t, a, fr, dt):
    s = as_str(eng, eng.load(a[0]))
    off = a[1].v if a[1].concrete else eng.ctx.concretize(a[1].v)
    if off < str_len(eng, s).v if str_len(eng, s).concrete else True:
        eng.store(a[0], _str_slice(eng, s, 0, off))
    return UNIT


@reg('str::char_indices')
def _char_indices(eng, t, a, fr, dt):
    s = as_str(eng, a[0])
    items = []
    off = 0
    for c in s.c:
        items.append(Agg('tuple', (Int('usize', off), Int('char', c))))
        l = char_utf8_len(c)
        off += l if type(l) is int else eng.ctx.concretize(l)
    return Iter('list', tuple(items), 0)


@reg('str::bytes', 'String::bytes', 'str::as_bytes', 'String::as_bytes', 'String::into_bytes')
def _str_bytes(eng, t, a, fr, dt):
    s = as_str(eng, a[0])
    if not s.concrete():
        out = []
        for c in s.c:
            if type(c) is int:
                out.extend(Int('u8', b) for b in chr(c).encode('utf-8'))
                continue
            n = char_len_of(eng, c)      # forks on the UTF-8 length class
            ex = lambda hi, lo: z3.Extract(7, 0, z3.LShR(c, lo)) & (0xFF >> (8 - (hi - lo)))
            if n == 1:
                out.append(Int('u8', z3.Extract(7, 0, c)))
            elif n == 2:
                out.append(Int('u8', z3.Extract(7, 0, z3.LShR(c, 6)) | 0xC0))
                out.append(Int('u8', (z3.Extract(7, 0, c) & 0x3F) | 0x80))
            elif n == 3:
                out.append(Int('u8', z3.Extract(7, 0, z3.LShR(c, 12)) | 0xE0))
                out.append(Int('u8', (z3.Extract(7, 0, z3.LShR(c, 6)) & 0x3F) | 0x80))
                out.append(Int('u8', (z3.Extract(7, 0, c) & 0x3F) | 0x80))
            else:
                out.append(Int('u8', z3.Extract(7, 0, z3.LShR(c, 18)) | 0xF0))
                out.append(Int('u8', (z3.Extract(7, 0, z3.LShR(c, 12)) & 0x3F) | 0x80))
                out.append(Int('u8', (z3.Extract(7, 0, z3.LShR(c, 6)) & 0x3F) | 0x80))
                out.append(Int('u8', (z3.Extract(7, 0, c) & 0x3F) | 0x80))
        bs = tuple(out)
        if t.key.endswith('bytes') and not t.key.endswith('as_bytes') and not t.key.endswith('into_bytes'):
            return Iter('list', bs, 0)
        return VecV(bs) if t.key.endswith('into_bytes') else Agg('[]', bs)
    bs = tuple(Int('u8', b) for b in s.py().encode('utf-8'))
    if t.key.endswith('bytes') and not t.key.endswith('as_bytes') and not t.key.endswith('into_bytes'):
        return Iter('list', bs, 0)
    return VecV(bs) if t.key.endswith('into_bytes') else Agg('[]', bs)


@reg('Iterator::position')
def _it_position(eng, t, a, fr, dt):
    r = a[0]
    it = to_iter(eng, eng.load(r) if type(r) is Ref else r)
    i = 0
    while True:
        it, item = iter_next(eng, it)
        if item is None:
            res = NONE
            break
        if eng.ctx.branch(eng.call_closure(a[1], [item], fr.tsubst if fr else None)):
            res = some(Int('usize', i))
            break
        i += 1
    if type(r) is Ref:
        eng.store(r, it)
    return res


@reg('Iterator::find')
def _it_find(eng, t, a, fr, dt):
    r = a[0]
    it = to_iter(eng, eng.load(r) if type(r) is Ref else r)
    res = NONE
    while True:
        it, item = iter_next(eng, it)
        if item is None:
            break
        if eng.ctx.branch(eng.call_closure(a[1], [Ref(Cell(item), (0,))], fr.tsubst if fr else None)):
            res = some(item)
            break
    if type(r) is Ref:
        eng.store(r, it)
    return res


@reg('Iterator::fold')
def _it_fold(eng, t, a, fr, dt):
    it = to_iter(eng, a[0])
    acc = a[1]
    while True:
        it, item = iter_next(eng, it)
        if item is None:
            return acc
        acc = eng.call_closure(a[2], [acc, item], fr.tsubst if fr else None)


@reg('Iterator::for_each')
def _it_for_each(eng, t, a, fr, dt):
    it = to_iter(eng, a[0])
    while True:
        it, item = iter_next(eng, it)
        if item is None:
            return UNIT
        eng.call_closure(a[1], [item], fr.tsubst if fr else None)


@reg('Iterator::sum')
def _it_sum(eng, t, a, fr, dt):
    it = to_iter(eng, a[0])
    acc = None
    while True:
        it, item = iter_next(eng, it)
        if item is None:
            break
        item = deref_all(item)
        if acc is None:
            acc = item
        else:
            m = binop('AddWithOverflow', acc, item)
            if not eng.ctx.branch(bool_not(m.f[1])):
                raise Panic('attempt to add with overflow')
            acc = m.f[0]
    if acc is None:
        ty = (t.generics[0] if t.generics else 'u32')
        return Int(ty if ty in BITS else 'u32', 0)
    return acc


@reg('Iterator::max', 'Iterator::min')
def _it_minmax(eng, t, a, fr, dt):
    it = to_iter(eng, a[0])
    best = None
    want_max = t.key.endswith('max')
    while True:
        it, item = iter_next(eng, it)
        if item is None:
            break
        if best is None:
            best = item
            continue
        x, y = deref_all(item), deref_all(best)
        better = _cmp('Ge' if want_max else 'Lt', x.ty, x.v, y.v)
        if eng.ctx.branch(better):
            best = item
    return opt(best)


@reg('Iterator::zip')
def _it_zip(eng, t, a, fr, dt):
    x, y = to_iter(eng, a[0]), to_iter(eng, a[1])
    items = []
    while True:
        x, i1 = iter_next(eng, x)
        if i1 is None:
            break
        y, i2 = iter_next(eng, y)
        if i2 is None:
            break
        items.append(Agg('tuple', (i1, i2)))
    return Iter('list', tuple(items), 0)


@reg('Iterator::peekable', 'Iterator::fuse')
def _it_identity(eng, t, a, fr, dt):
    return to_iter(eng, a[0])


@reg('Iterator::skip_while', 'Iterator::take_while')
def _it_while(eng, t, a, fr, dt):
    it = to_iter(eng, a[0])
    items = []
    taking = t.key.endswith('take_while')
    skipping = not taking
    while True:
        it, item = iter_next(eng, it)
        if item is None:
            break
        if taking:
            if eng.ctx.branch(eng.call_closure(a[1], [Ref(Cell(item), (0,))], fr.tsubst if fr else None)):
                items.append(item)
            else:
                break
        else:
            if skipping and eng.ctx.branch(eng.call_closure(a[1], [Ref(Cell(item), (0,))], fr.tsubst if fr else None)):
                continue
            skipping = False
            items.append(item)
    return Iter('list', tuple(items), 0)


@reg('Vec::swap', '[]::swap')
def _vec_swap(eng, t, a, fr, dt):
    r = _innermost_ref(eng, a[0])
    v = eng.load(r)
    items = list(v.items if type(v) is VecV else v.f)
    i = a[1].v if a[1].concrete else eng.ctx.concretize(a[1].v)
    j = a[2].v if a[2].concrete else eng.ctx.concretize(a[2].v)
    if i >= len(items) or j >= len(items):
        raise Panic('index out of bounds')
    items[i], items[j] = items[j], items[i]
    eng.store(r, VecV(items) if type(v) is VecV else Agg(v.name, items))
    return UNIT


@reg('Vec::extend', 'Vec::append')
def _vec_extend(eng, t, a, fr, dt):
    if t.key.endswith('append'):
        other = eng.load(a[1])
        v = eng.load(a[0])
        eng.store(a[0], VecV(v.items + other.items))
        eng.store(a[1], VecV())
        return UNIT
    return _extend(eng, t, a, fr, dt)


@reg('Vec::contains')
def _vec_contains(eng, t, a, fr, dt):
    return _slice_contains(eng, t, a, fr, dt)


@reg('Vec::split_off')
def _vec_split_off(eng, t, a, fr, dt):
    v = eng.load(a[0])
    k = a[1].v if a[1].concrete else eng.ctx.concretize(a[1].v)
    if k > len(v.items):
        raise Panic('split_off index out of bounds')
    eng.store(a[0], VecV(v.items[:k]))
    return VecV(v.items[k:])


@reg('[]::split_at')
def _split_at(eng, t, a, fr, dt):
    items = seq_items(eng, a[0])
    k = a[1].v if a[1].concrete else eng.ctx.concretize(a[1].v)
    if k > len(items):
        raise Panic('mid > len in split_at')
    r = _innermost_ref(eng, a[0])
    off = r.rng[0] if r.rng else 0
    return Agg('tuple', (Ref(r.base, r.path, (off, off + k)), Ref(r.base, r.path, (off + k, off + len(items)))))


@reg('HashMap::get_or_insert_with', 'HashMap::entry_ref')
def _hm_unsupported(eng, t, a, fr, dt):
    raise Unmodelled(t.key)


@reg('HashMap::extend', 'HashSet::extend')
def _hm_extend(eng, t, a, fr, dt):
    return _extend(eng, t, a, fr, dt)


@reg('HashSet::is_subset', 'HashSet::is_disjoint')
def _hs_rel(eng, t, a, fr, dt):
    x, y = deref_all(a[0]), deref_all(a[1])
    r = True
    for (k, p, v) in x.e:
        inn = map_contains(eng, y, k)
        if t.key.endswith('is_subset'):
            r = bool_and(r, bool_or(bool_not(p), inn))
        else:
            r = bool_and(r, bool_not(bool_and(p, inn)))
    return r


_strwidth_cache = {}


@reg('UnicodeWidthStr::width')
def _str_width(eng, t, a, fr, dt):
    """unicode-width's string width (it has sequence rules, e.g. emoji presentation): asked of the real
    crate through mt-replay for concrete strings."""
    st = as_str(eng, a[0])
    if not st.concrete():
        raise Unmodelled('UnicodeWidthStr::width of a symbolic string')
    key = st.py()
    if key not in _strwidth_cache:
        import subprocess, json as _json
        from . import harness as H
        binary = H.G['bins']['dev']
        p = subprocess.run([binary, 'strwidth'], input=_json.dumps([ord(c) for c in key]) + '\n', stdout=subprocess.PIPE,
                           text=True, check=True)
        _strwidth_cache[key] = int(p.stdout.strip())
    return Int('usize', _strwidth_cache[key])


@reg('from_utf8', 'str::from_utf8')
def _from_utf8(eng, t, a, fr, dt):
    """core::str::from_utf8: Ok(str) iff the bytes are well-formed UTF-8 (forks on the byte classes)."""
    bs = [deref_all(x) for x in seq_items(eng, a[0])]
    chars, had, pend = utf8_decode(eng, bs, lossy_tail=False, want_pending=True)
    if had or pend:
        return err(Opaque('Utf8Error'))
    return ok(Str(chars))


@reg('String::from_utf8')
def _string_from_utf8(eng, t, a, fr, dt):
    v = deref_all(a[0])
    bs = list(v.items)
    chars, had, pend = utf8_decode(eng, bs, lossy_tail=False, want_pending=True)
    if had or pend:
        return err(Opaque('FromUtf8Error'))
    return ok(Str(chars))


@reg('String::drain')
def _string_drain(eng, t, a, fr, dt):
    """String::drain(range): removes the byte range and yields its characters."""
    r = a[0]
    st = as_str(eng, eng.load(r))
    rg = deref_all(a[1])
    total = str_len(eng, st)
    tot = total.v if total.concrete else eng.ctx.concretize(total.v)
    start, end = _range_bounds(eng, rg, tot)
    mid = _str_slice(eng, st, start, end)
    pre = _str_slice(eng, st, 0, start)
    post = _str_slice(eng, st, end, tot)
    eng.store(r, Str(pre.c + post.c))
    return Iter('chars', mid, 0)


@reg('Vec::drain')
def _vec_drain(eng, t, a, fr, dt):
    r = _innermost_ref(eng, a[0])
    v = eng.load(r)
    rg = deref_all(a[1])
    start, end = _range_bounds(eng, rg, len(v.items))
    if start > end or end > len(v.items):
        raise Panic('drain range out of bounds')
    eng.store(r, VecV(v.items[:start] + v.items[end:]))
    return Iter('list', v.items[start:end], 0)


# --------------------------------------------------------------------------- further adaptors / terminals a
# behaviour-preserving rewrite may use (each evaluated eagerly where the closure is pure w.r.t. iteration order:
# the items are produced in order, closures are called in order)

def _drain_iter(eng, it):
    out = []
    while True:
        it, item = iter_next(eng, it)
        if item is None:
            return out
        out.append(item)


@reg('Iterator::flat_map')
def _it_flat_map(eng, t, a, fr, dt):
    ts = fr.tsubst if fr else None
    out = []
    for item in _drain_iter(eng, to_iter(eng, a[0])):
        out.extend(_drain_iter(eng, to_iter(eng, eng.call_closure(a[1], [item], ts))))
    return Iter('list', tuple(out), 0)


@reg('Iterator::flatten')
def _it_flatten(eng, t, a, fr, dt):
    out = []
    for item in _drain_iter(eng, to_iter(eng, a[0])):
        out.extend(_drain_iter(eng, to_iter(eng, item)))
    return Iter('list', tuple(out), 0)


@reg('Iterator::filter_map')
def _it_filter_map(eng, t, a, fr, dt):
    ts = fr.tsubst if fr else None
    out = []
    for item in _drain_iter(eng, to_iter(eng, a[0])):
        r = eng.call_closure(a[1], [item], ts)
        if _disc_is(eng, r, 1):
            out.append(r.pay[1][0])
    return Iter('list', tuple(out), 0)


@reg('Iterator::find_map')
def _it_find_map(eng, t, a, fr, dt):
    ts = fr.tsubst if fr else None
    r0 = a[0]
    it = to_iter(eng, eng.load(r0) if type(r0) is Ref else r0)
    res = NONE
    while True:
        it, item = iter_next(eng, it)
        if item is None:
            break
        r = eng.call_closure(a[1], [item], ts)
        if _disc_is(eng, r, 1):
            res = r
            break
    if type(r0) is Ref:
        eng.store(r0, it)
    return res


@reg('Iterator::inspect')
def _it_inspect(eng, t, a, fr, dt):
    ts = fr.tsubst if fr else None
    items = _drain_iter(eng, to_iter(eng, a[0]))
    for item in items:
        eng.call_closure(a[1], [Ref(Cell(item), (0,))], ts)
    return Iter('list', tuple(items), 0)


@reg('Iterator::map_while')
def _it_map_while(eng, t, a, fr, dt):
    ts = fr.tsubst if fr else None
    out = []
    it = to_iter(eng, a[0])
    while True:
        it, item = iter_next(eng, it)
        if item is None:
            break
        r = eng.call_closure(a[1], [item], ts)
        if not _disc_is(eng, r, 1):
            break
        out.append(r.pay[1][0])
    return Iter('list', tuple(out), 0)


@reg('Iterator::min_by_key', 'Iterator::max_by_key')
def _it_by_key(eng, t, a, fr, dt):
    ts = fr.tsubst if fr else None
    want_max = 'max' in t.key
    best = bestk = None
    for item in _drain_iter(eng, to_iter(eng, a[0])):
        k = deref_all(eng.call_closure(a[1], [Ref(Cell(item), (0,))], ts))
        if type(k) is not Int:
            raise Unmodelled('min/max_by_key with a non-integer key')
        if best is None:
            best, bestk = item, k
            continue
        # max_by_key keeps the last maximum, min_by_key the first minimum
        better = _cmp('Ge' if want_max else 'Lt', k.ty, k.v, bestk.v)
        if eng.ctx.branch(better):
            best, bestk = item, k
    return opt(best)


@reg('Iterator::reduce')
def _it_reduce(eng, t, a, fr, dt):
    ts = fr.tsubst if fr else None
    acc = None
    for item in _drain_iter(eng, to_iter(eng, a[0])):
        acc = item if acc is None else eng.call_closure(a[1], [acc, item], ts)
    return opt(acc)


@reg('Iterator::partition')
def _it_partition(eng, t, a, fr, dt):
    ts = fr.tsubst if fr else None
    yes, no = [], []
    for item in _drain_iter(eng, to_iter(eng, a[0])):
        (yes if eng.ctx.branch(eng.call_closure(a[1], [Ref(Cell(item), (0,))], ts)) else no).append(deref_all(item))
    return Agg('tuple', (VecV(tuple(yes)), VecV(tuple(no))))


@reg('Iterator::unzip')
def _it_unzip(eng, t, a, fr, dt):
    xs, ys = [], []
    for item in _drain_iter(eng, to_iter(eng, a[0])):
        p = deref_all(item)
        xs.append(p.f[0])
        ys.append(p.f[1])
    return Agg('tuple', (VecV(tuple(xs)), VecV(tuple(ys))))


@reg('Iterator::try_for_each')
def _it_try_for_each(eng, t, a, fr, dt):
    raise Unmodelled('Iterator::try_for_each')


@reg('bool::then_some')
def _bool_then_some(eng, t, a, fr, dt):
    return some(a[1]) if eng.ctx.branch(deref_all(a[0])) else NONE


@reg('bool::then')
def _bool_then(eng, t, a, fr, dt):
    if eng.ctx.branch(deref_all(a[0])):
        return some(eng.call_closure(a[1], [], fr.tsubst if fr else None))
    return NONE


@reg('Option::zip')
def _opt_zip(eng, t, a, fr, dt):
    if _disc_is(eng, a[0], 1) and _disc_is(eng, a[1], 1):
        return some(Agg('tuple', (a[0].pay[1][0], a[1].pay[1][0])))
    return NONE


@reg('Option::flatten')
def _opt_flatten(eng, t, a, fr, dt):
    if _disc_is(eng, a[0], 1):
        return a[0].pay[1][0]
    return NONE


@reg('Option::unzip')
def _opt_unzip(eng, t, a, fr, dt):
    if _disc_is(eng, a[0], 1):
        p = deref_all(a[0].pay[1][0])
        return Agg('tuple', (some(p.f[0]), some(p.f[1])))
    return Agg('tuple', (NONE, NONE))


@reg('TryFrom::try_from', 'TryInto::try_into')
def _try_from(eng, t, a, fr, dt):
    # integer -> integer: Ok when the value fits the target type
    v = deref_all(a[0])
    tgt = type_base(t.self_ty or '')
    if t.key.endswith('try_into'):
        mi = re.search(r'TryInto<\s*(\w+)\s*>', t.raw or '')
        tgt = mi.group(1) if mi else None
    if type(v) is not Int or tgt not in BITS or v.ty not in BITS or v.ty in SIGNED or tgt in SIGNED:
        raise Unmodelled('TryFrom %r' % (t.raw,))
    tb = BITS[tgt]
    if BITS[v.ty] <= tb:
        return ok(int_cast(v, tgt))
    fits = _cmp('Le', v.ty, v.v, (1 << tb) - 1)
    if eng.ctx.branch(fits):
        return ok(int_cast(v, tgt))
    return err(Opaque('TryFromIntError', ()))


@reg('Result::map_err')
def _res_map_err(eng, t, a, fr, dt):
    e = a[0]
    if _disc_is(eng, e, 0):
        return e
    return err(eng.call_closure(a[1], [e.pay[1][0]], fr.tsubst if fr else None))


@reg('Result::and_then')
def _res_and_then(eng, t, a, fr, dt):
    e = a[0]
    if _disc_is(eng, e, 0):
        return eng.call_closure(a[1], [e.pay[0][0]], fr.tsubst if fr else None)
    return e


@reg('Result::err')
def _res_err(eng, t, a, fr, dt):
    e = a[0]
    if _disc_is(eng, e, 0):
        return NONE
    return some(e.pay[1][0])


@reg('Result::unwrap_or_default')
def _res_unwrap_or_default(eng, t, a, fr, dt):
    e = a[0]
    if _disc_is(eng, e, 0):
        return e.pay[0][0]
    g = t.self_ty or ''
    inner = top_level_split(g[g.index('<') + 1:g.rindex('>')], ', ')[0].strip() if '<' in g else ''
    ib = type_base(inner) if inner else ''
    if ib in BITS:
        return Int(ib, 0)
    if ib == 'String':
        return Str(())
    raise Unmodelled('Result::unwrap_or_default for ' + g)


@reg('char::to_ascii_uppercase', 'char::to_ascii_lowercase')
def _char_ascii_case(eng, t, a, fr, dt):
    c = deref_all(a[0])
    up = t.key.endswith('uppercase')
    lo, hi, d = (97, 122, -32) if up else (65, 90, 32)
    if c.concrete:
        return Int('char', c.v + d if lo <= c.v <= hi else c.v)
    return Int('char', z3.If(z3.And(z3.UGE(c.v, lo), z3.ULE(c.v, hi)), c.v + d, c.v))


@reg('char::is_digit')
def _char_is_digit(eng, t, a, fr, dt):
    c = deref_all(a[0])
    radix = deref_all(a[1])
    if not radix.concrete or radix.v != 10:
        raise Unmodelled('char::is_digit with radix %r' % (radix,))
    return bool_and(_cmp('Ge', 'u32', c.v, 48), _cmp('Le', 'u32', c.v, 57))


@reg('u32::checked_div', 'usize::checked_div', 'u64::checked_div')
def _checked_div(eng, t, a, fr, dt):
    x, y = deref_all(a[0]), deref_all(a[1])
    if eng.ctx.branch(int_eq(y, 0)):
        return NONE
    return some(binop('Div', x, y))


def _mkint(ty, e):
    e = z3.simplify(e)
    return Int(ty, e.as_long()) if z3.is_bv_value(e) else Int(ty, e)


@reg('u8::saturating_add', 'u16::saturating_add', 'u16::saturating_sub', 'u8::checked_add', 'u8::checked_sub', 'u16::checked_add',
     'u16::checked_sub', 'u64::checked_add', 'u64::checked_mul')
def _small_int_arith(eng, t, a, fr, dt):
    ty, m = t.key.split('::')
    x, y = deref_all(a[0]), deref_all(a[1])
    bits = BITS[ty]
    mx = (1 << bits) - 1
    X = z3.ZeroExt(bits, bv(x))
    Y = z3.ZeroExt(bits, bv(y))
    wide = {'saturating_add': X + Y, 'checked_add': X + Y, 'saturating_sub': X - Y, 'checked_sub': X - Y,
            'checked_mul': X * Y}[m]
    if m.endswith('sub'):
        under = z3.simplify(z3.ULT(bv(x), bv(y)))
        if m.startswith('saturating'):
            return _mkint(ty, z3.If(under, z3.BitVecVal(0, bits), bv(x) - bv(y)))
        if eng.ctx.branch(under):
            return NONE
        return some(_mkint(ty, bv(x) - bv(y)))
    over = z3.simplify(z3.UGT(wide, mx))
    res = z3.simplify(z3.Extract(bits - 1, 0, wide))
    if m.startswith('saturating'):
        return _mkint(ty, z3.If(over, z3.BitVecVal(mx, bits), res))
    if eng.ctx.branch(over):
        return NONE
    return some(_mkint(ty, res))


@reg('Chars::as_str')
def _chars_as_str(eng, t, a, fr, dt):
    it = deref_all(a[0])
    if type(it) is Iter and it.kind == 'chars':
        st, pos = it.s
        return Str(st.c[pos:])
    raise Unmodelled('Chars::as_str on %r' % (it,))
