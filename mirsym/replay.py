"""Client for the native replay binary (mt-replay run): one persistent process per profile.
Raw (unbuffered) pipes with our own line splitting, so select() never waits on data Python already
buffered; result lines are tagged `@@RESULT ` because the crate under test prints diagnostics to
stdout."""
import json
import os
import select
import subprocess
import time


class Native:
    def __init__(self, binary, timeout=20.0):
        self.binary = binary
        self.timeout = timeout
        self.p = None
        self.calls = 0
        self.buf = b''

    def _start(self):
        self.p = subprocess.Popen([self.binary, 'run'], stdin=subprocess.PIPE, stdout=subprocess.PIPE,
                                  stderr=subprocess.DEVNULL, bufsize=0)
        self.buf = b''

    def _kill(self):
        try:
            self.p.kill()
            self.p.wait(timeout=2)
        except Exception:
            pass
        self.p = None
        self.buf = b''

    def run(self, scenario):
        """-> dict {'ok':bool,'out':[...], 'panic':msg?} or {'hang':True} / {'abort':True}"""
        if self.p is None or self.p.poll() is not None:
            self._start()
        self.calls += 1
        data = (json.dumps(scenario) + '\n').encode('utf-8')
        try:
            self.p.stdin.write(data)
        except (BrokenPipeError, OSError):
            self._start()
            self.p.stdin.write(data)
        fd = self.p.stdout.fileno()
        deadline = time.time() + self.timeout
        while True:
            while b'\n' in self.buf:
                line, self.buf = self.buf.split(b'\n', 1)
                if line.startswith(b'@@RESULT '):
                    return json.loads(line[9:].decode('utf-8'))
            left = deadline - time.time()
            if left <= 0:
                self._kill()
                return {'ok': False, 'hang': True, 'out': []}
            r, _, _ = select.select([fd], [], [], left)
            if not r:
                self._kill()
                return {'ok': False, 'hang': True, 'out': []}
            chunk = os.read(fd, 1 << 16)
            if not chunk:
                rc = self.p.poll()
                self._kill()
                return {'ok': False, 'abort': True, 'rc': rc, 'out': []}
            self.buf += chunk

    def close(self):
        if self.p is not None:
            try:
                self.p.stdin.close()
                self.p.wait(timeout=2)
            except Exception:
                pass
            self._kill()
