"""Client for the native replay binary (mt-replay run): one persistent process per profile."""
import json
import os
import select
import subprocess


class Native:
    def __init__(self, binary, timeout=20.0):
        self.binary = binary
        self.timeout = timeout
        self.p = None
        self.calls = 0

    def _start(self):
        self.p = subprocess.Popen([self.binary, 'run'], stdin=subprocess.PIPE, stdout=subprocess.PIPE,
                                  stderr=subprocess.DEVNULL, text=True, bufsize=1)

    def run(self, scenario):
        """-> dict {'ok':bool,'out':[...], 'panic':msg?} or {'hang':True}"""
        if self.p is None or self.p.poll() is not None:
            self._start()
        self.calls += 1
        try:
            self.p.stdin.write(json.dumps(scenario) + '\n')
            self.p.stdin.flush()
        except BrokenPipeError:
            self._start()
            self.p.stdin.write(json.dumps(scenario) + '\n')
            self.p.stdin.flush()
        r, _, _ = select.select([self.p.stdout], [], [], self.timeout)
        if not r:
            self.p.kill()
            self.p = None
            return {'ok': False, 'hang': True, 'out': []}
        line = self.p.stdout.readline()
        if not line:
            rc = self.p.poll()
            self.p = None
            return {'ok': False, 'abort': True, 'rc': rc, 'out': []}
        return json.loads(line)

    def close(self):
        if self.p is not None:
            try:
                self.p.stdin.close()
                self.p.wait(timeout=2)
            except Exception:
                self.p.kill()
            self.p = None
