"""C08 -- SGR sets exactly the documented rendition attributes.

Reference: an independent left-to-right fold over the documented table, with its own xterm palette
formula.  Structural decisions of the fold (which code class, how many sub-parameters are consumed)
follow the path condition; table look-ups are if-then-else terms over the symbolic code."""
import z3

from ..values import *
from ..engine import bool_and, bool_or, bool_not, to_z3bool
from ..harness import Job, Check, G
from ..state import MODES, slice_u32, FLAG_NAMES
from ..symstate import same
from .. import stdlib
from .common import *
from .sweep import sym_u32

PROP = 'C08'

NAMES8 = ['black', 'red', 'green', 'brown', 'blue', 'magenta', 'cyan', 'white']
SET = {1: 'bold', 3: 'italics', 4: 'underscore', 5: 'blink', 7: 'reverse', 9: 'strikethrough'}
CLR = {22: 'bold', 23: 'italics', 24: 'underscore', 25: 'blink', 27: 'reverse', 29: 'strikethrough'}


def xterm256(n):
    """Entry n of the xterm 256-colour palette as rrggbb (independent of graphics.rs)."""
    base = ['000000', 'cd0000', '00cd00', 'cdcd00', '0000ee', 'cd00cd', '00cdcd', 'e5e5e5',
            '7f7f7f', 'ff0000', '00ff00', 'ffff00', '5c5cff', 'ff00ff', '00ffff', 'ffffff']
    if n < 16:
        return base[n]
    if n < 232:
        n -= 16
        lv = [0, 95, 135, 175, 215, 255]
        return '%02x%02x%02x' % (lv[n // 36], lv[(n // 6) % 6], lv[n % 6])
    g = 8 + 10 * (n - 232)
    return '%02x%02x%02x' % (g, g, g)


def choice_of(ctx, code, table, cur):
    """SChoice: table[code] if code in table else cur (cur is Str/SChoice)."""
    alts = []
    anyc = False
    for k, name in table.items():
        c = code == k
        alts.append((c, Str.of(name)))
        anyc = z3.Or(anyc, c) if anyc is not False else c
    rest = z3.Not(anyc)
    for g, s in (cur.alts if type(cur) is SChoice else ((True, cur),)):
        alts.append((bool_and(rest, g), s))
    return SChoice(tuple((to_z3bool(g), s) for g, s in alts if g is not False))


def fold(ctx, L, pre, params):
    """Reference fold.  Returns the expected CharOpts (fields may be symbolic)."""
    _, _, attr, _ = cursor_of(L, pre)
    dflt = default_cell(L, pre)
    st = {n: attr.f[L.char[n]] for n in L.char}
    if len(params) == 0:
        return dflt
    vals = [bv(p) for p in params]
    if len(params) == 1 and ctx.branch(vals[0] == 0):
        return dflt
    fg_tab = {30 + i: NAMES8[i] for i in range(8)}
    fg_tab[39] = 'default'
    fg_tab.update({90 + i: 'bright' + NAMES8[i] for i in range(8)})
    bg_tab = {40 + i: NAMES8[i] for i in range(8)}
    bg_tab[49] = 'default'
    bg_tab.update({100 + i: 'bright' + NAMES8[i] for i in range(8)})
    i = 0
    n = len(vals)
    while i < n:
        c = vals[i]
        i += 1
        if ctx.branch(c == 0):
            st = {k: dflt.f[L.char[k]] for k in L.char}
            continue
        if ctx.branch(z3.Or(c == 38, c == 48)):
            key = 'fg' if ctx.branch(c == 38) else 'bg'
            if i >= n:
                continue
            kind = vals[i]
            i += 1
            if ctx.branch(kind == 5):
                if i >= n:
                    continue
                idx = vals[i]
                i += 1
                if ctx.branch(z3.ULT(idx, 256)):
                    iv = ctx.concretize(idx)
                    st[key] = Str.of(xterm256(iv))
                continue
            if ctx.branch(kind == 2):
                comps = vals[i:i + 3]
                i += 3
                if len(comps) < 3:
                    i = n
                    continue
                r, g, b = comps
                if ctx.branch(z3.And(z3.ULE(r, 255), z3.ULE(g, 255), z3.ULE(b, 255))):
                    chars = []
                    for comp in (r, g, b):
                        for shift in (4, 0):
                            d = z3.LShR(comp, shift) & 15
                            chars.append(z3.If(z3.ULT(d, 10), d + 48, d + 87))
                    st[key] = Str(tuple(chars))
                continue
            continue
        st['fg'] = choice_of(ctx, c, fg_tab, st['fg'])
        st['bg'] = choice_of(ctx, c, bg_tab, st['bg'])
        for code, name in SET.items():
            st[name] = z3.If(c == code, z3.BoolVal(True), to_z3bool(st[name]))
        for code, name in CLR.items():
            st[name] = z3.If(c == code, z3.BoolVal(False), to_z3bool(st[name]))
    f = [None] * len(L.char)
    for k, idx in L.char.items():
        f[idx] = st[k]
    return Agg('CharOpts', f)


def path_sgr(ctx, job, box):
    cols, lines = job.params['geom']
    shape = job.params['shape']
    run = GridRun(ctx, box, cols, lines, cursor=(0, 0), tabstops=0, titles='none', saved_columns='none',
                  margins='none', extra_mode=False, modes={'DECSCNM': 'sym', 'DECAWM': True, 'DECTCEM': True},
                  cell_attrs='none')
    L = run.L
    params = []
    for k, sp in enumerate(shape):
        params.append(sym_u32(ctx, 's%d' % k) if sp is None else Int('u32', sp))
    via = job.params.get('via', 'api')
    if via == 'api':
        run.call('select_graphic_rendition', slice_u32(params))
    else:
        run.calls.append(('csi_dispatch', (Str.of('m'), slice_u32(params), False)))
        try:
            run.eng.call_path('<T as ParserListener>::csi_dispatch', [run.ses.sref, Str.of('m'), slice_u32(params), False],
                              {'T': 'Screen'})
        except Panic as e:
            run.outcome, run.msg = 'panic', str(e)
    if run.outcome == 'panic':
        return run.panic_check('SGR panics: %s' % run.msg)
    mid = run.ses.screen
    exp = fold(ctx, L, run.pre, params)
    _, _, pattr, _ = cursor_of(L, mid)
    checks = []
    for name, i in L.char.items():
        checks.append(run.check(same(pattr.f[i], exp.f[i]),
                                'SGR: `%s` of the resulting rendition differs from the left-to-right fold over the documented table' % name))
    frame = bool_and(fields_same(L, run.pre, mid, except_=('cursor',)), cursor_same(L, run.pre, mid, except_=('attr',)))
    checks.append(run.check(frame, 'SGR changed cells on screen or other state'))
    # a character drawn afterwards carries exactly that rendition
    run.call('draw', Str.of('Z'))
    if run.outcome == 'panic':
        return run.panic_check('draw after SGR panics: %s' % run.msg)
    cell = cell_alts(L, run.post, 0, 0)
    checks.append(run.check(alts_is(cell, exp.with_field(L.char['data'], Str.of('Z'))),
                            'a character drawn after SGR does not carry exactly the selected rendition'))
    # ... and so do both cells of a double-width character
    run.call('cursor_position', some(Int('u32', 1)), some(Int('u32', 1)))
    run.call('draw', Str.of('コ'))
    if run.outcome == 'panic':
        return run.panic_check('draw after SGR panics: %s' % run.msg)
    checks.append(run.check(bool_and(alts_is(cell_alts(L, run.post, 0, 0), exp.with_field(L.char['data'], Str.of('コ'))),
                                     alts_is(cell_alts(L, run.post, 0, 1), exp.with_field(L.char['data'], Str(())))),
                            'a double-width character drawn after SGR: lead or placeholder does not carry the selected rendition'))
    return checks


def path_parser(ctx, job, box):
    """Through the recogniser: an aborted / skipped CSI with parameters, then `CSI n m`: the rendition is the
    fold of the SGR sequence's own parameters only."""
    from ..engine import Engine
    from ..state import Session, snapshot, Ev
    from ..symstate import SymScreen
    prog, L = G['prog'], G['L']
    eng = Engine(prog, ctx)
    box['eng'] = eng
    ss = SymScreen(ctx, eng, L, 2, 1, cursor=(0, 0), tabstops=0, titles='none', saved_columns='none', margins='none',
                   extra_mode=False, modes={'DECSCNM': 'sym', 'DECAWM': True, 'DECTCEM': True}, cell_attrs='none',
                   buffer='none')
    ses = Session(eng, L, screen=ss.value)
    pre = ss.value
    prefix = job.params['prefix']
    p0 = sym_u32(ctx, 's0')
    digits = None
    # the parameter is sent as its decimal digits: concretised per path (0..=9999 would be 10^4 paths, so the
    # SGR code is chosen among the documented classes plus a free two-digit value)
    d1 = ctx.bvvar('d1', 32)
    d2 = ctx.bvvar('d2', 32)
    ctx.assume(z3.And(z3.UGE(d1, 48), z3.ULE(d1, 57), z3.UGE(d2, 48), z3.ULE(d2, 57)))
    val = (d1 - 48) * 10 + (d2 - 48)
    chars = [ord(c) for c in prefix] + [0x9b, d1, d2, ord('m')]
    outcome, msg = 'ok', None
    mid = pre
    try:
        if prefix:
            ses.feed(Str.of(prefix))
            mid = ses.screen          # whatever the earlier sequence legitimately did
        ses.feed(Str((0x9b, d1, d2, ord('m'))))
    except Panic as e:
        outcome, msg = 'panic', str(e)
    post = ses.screen

    def jsteps(model):
        ev = Ev(model)
        out = []
        if prefix:
            out.append(['feed_cps', [ord(c) for c in prefix]])
        out.append(['feed_cps', [0x9b, ev.int(d1), ev.int(d2), ord('m')]])
        return out

    def scenario(model):
        st = snapshot(eng, L, pre, model)
        sc = {'cols': 2, 'lines': 1, 'state': st, 'steps': jsteps(model)}
        if outcome == 'panic':
            return sc, {'ok': False, 'panic': msg, 'out': []}
        return sc, {'ok': True, 'out': [snapshot(eng, L, post, model)]}

    def describe(model):
        return {'input': ''.join(chr(c) for st in jsteps(model) for c in st[1]).encode('unicode_escape').decode()}

    if outcome == 'panic':
        return Check(False, scenario, describe, outcome='panic', label='panic: %s' % msg)
    exp = fold(ctx, L, mid, [Int('u32', val)])
    _, _, pattr, _ = cursor_of(L, post)
    ok = True
    for name, i in L.char.items():
        ok = bool_and(ok, same(pattr.f[i], exp.f[i]))
    return Check(ok, scenario, describe,
                 label='CSI n m after an aborted/skipped CSI: the rendition is not the fold of the sequence\'s own parameter '
                       '(stale parameters from the earlier sequence?)')


def jobs(tier):
    js = []
    g = (2, 1)
    shapes = [(), (None,), (None, None)]
    for lead in (38, 48):
        shapes += [(lead,), (lead, None), (lead, 5), (lead, 5, None), (lead, 2), (lead, 2, None), (lead, 2, None, None),
                   (lead, 2, None, None, None)]
    shapes += [(38, 5, None, None), (48, 2, None, None, None, None), (None, 48, 5, None)]
    if tier == 'thorough':
        shapes += [(None, None, None), (38, None, None, None), (48, None, None, None), (38, 5, None, 48, 5, None),
                   (None, 38, 2, None, None, None), (38, 2, None, None, None, None, None), (48, 5, None, None),
                   (38, 2, None, None, None, None), (None, 38, 5, None)]
    for sh in shapes:
        name = ';'.join('n' if x is None else str(x) for x in sh) or 'empty'
        js.append(Job('api/' + name, path_sgr, shape=sh, geom=g, prop=PROP))
    for sh in [(None,), (38, 5, None), (48, 2, None, None, None)]:
        name = ';'.join('n' if x is None else str(x) for x in sh)
        js.append(Job('csi/' + name, path_sgr, shape=sh, geom=g, via='csi', prop=PROP))
    for nm, pre in (('plain', ''), ('can', '\x9b1;4;7\x18'), ('dollar', '\x9b1;4;7$x'), ('sub', '\x9b48;5;\x1a'),
                    ('sgr', '\x9b1;4m'), ('osc', '\x9d2;x\x07')):
        js.append(Job('parser/after-' + nm, path_parser, prefix=pre, prop=PROP))
    return js


TIME_BUDGET = {'quick': 900, 'thorough': 3300}

META = {
    'functions': ['select_graphic_rendition', 'CharOpts::to_map', 'CharOpts::update_from_map', 'default_char', 'draw',
                  'graphics.rs table initialisers (FG_ANSI, BG_ANSI, TEXT, FG_AIXTERM, BG_AIXTERM, FG_BG_256)',
                  'ParserListener::csi_dispatch'],
    'bounds': 'parameter lists: empty, 1 and 2 (thorough 3) fully symbolic codes 0..=9999, and the shaped 38/48 forms '
              '(;5;n  ;2;r;g;b  truncated tails, wrong selector, trailing extra code) with every sub-parameter symbolic '
              '0..=9999; from a symbolic current rendition (6 flags, fg/bg choices) and DECSCNM on/off',
    'outside': 'lists longer than 6 parameters; parameters above 9999',
}
