"""C12 -- SM/RM switch exactly the named modes with their documented side effects."""
import z3

from ..values import *
from ..engine import bool_and, bool_or, bool_not, to_z3bool
from ..harness import Job, Check, G
from ..state import MODES, slice_u32
from ..symstate import same
from .. import stdlib
from .common import *
from .sweep import sym_u32

PROP = 'C12'
M = MODES


def path_modes(ctx, job, box):
    cols, lines = job.params['geom']
    op = job.params['op']
    n = job.params['n']
    via = job.params.get('via', 'api')
    if job.params.get('wide'):
        run = GridRun(ctx, box, cols, lines, cursor=(3, 0), tabstops=1, titles='none', savepoints=0, buffer='none')
    elif job.params.get('remote'):
        run = GridRun(ctx, box, cols, lines, tabstops=1, titles='none', savepoints=0, dirty='none', extra_mode=False,
                      **remote_opts(cols, lines))
    else:
        run = GridRun(ctx, box, cols, lines, cursor='pick', tabstops=1, titles='none', savepoints=0)
    L = run.L
    ss = run.ss
    if job.params.get('fixed'):
        ms = [Int('u32', v) for v in job.params['fixed'][0]]
        private = job.params['fixed'][1]
    else:
        ms = [sym_u32(ctx, 'm%d' % i) for i in range(n)]
        private = ctx.boolvar('private')
    if via == 'api':
        run.call(op, slice_u32(ms), private)
    else:
        fin = 'h' if op == 'set_mode' else 'l'
        run.calls.append(('csi_dispatch', (Str.of(fin), slice_u32(ms), private)))
        try:
            run.eng.call_path('<T as ParserListener>::csi_dispatch', [run.ses.sref, Str.of(fin), slice_u32(ms), private],
                              {'T': 'Screen'})
        except Panic as e:
            run.outcome, run.msg = 'panic', str(e)
    if run.outcome == 'panic':
        return run.panic_check('%s panics: %s' % (op, run.msg))
    pre, post = run.pre, run.post
    set_ = op == 'set_mode'
    # shifted numbers
    sh = [z3.If(to_z3bool(private), bv(m) << 5, bv(m)) for m in ms]

    def has(num):
        c = z3.Or([s == num for s in sh])
        return ctx.branch(c)

    colm, decom, scnm, tcem = has(M['DECCOLM']), has(M['DECOM']), has(M['DECSCNM']), has(M['DECTCEM'])
    checks = []
    # ---- the mode set
    v = ctx.bvvar('probe_mode', 32)
    was = to_z3bool(stdlib.map_contains(None, scr(L, pre, 'mode'), Int('u32', v)))
    now = to_z3bool(stdlib.map_contains(None, scr(L, post, 'mode'), Int('u32', v)))
    inlist = z3.Or([s == v for s in sh])
    exp = z3.Or(was, inlist) if set_ else z3.And(was, z3.Not(inlist))
    checks.append(run.check(now == exp, '%s: resulting mode set is not the old one %s exactly the listed numbers'
                            % (op, 'plus' if set_ else 'minus')))
    # ---- geometry
    pc = ctx.concretize(bv(scr(L, post, 'columns')))
    pl = ctx.concretize(bv(scr(L, post, 'lines')))
    restored = False
    exp_cols = 132 if (colm and set_) else cols
    if colm and not set_ and cols == 132:
        sc0 = scr(L, pre, 'saved_columns')
        had = ctx.branch(int_eq(Int('isize', sc0.disc), 1))
        if had:
            exp_cols = ctx.concretize(bv(sc0.pay[1][0]))
            restored = True
    checks.append(run.check(pc == exp_cols and pl == lines, '%s: geometry after the call is %dx%d, expected %dx%d'
                            % (op, pc, pl, exp_cols, lines)))
    if pc != exp_cols or pl != lines:
        return checks
    # ---- saved width
    if colm and set_:
        sc = scr(L, post, 'saved_columns')
        okc = bool_and(int_eq(Int('isize', sc.disc), 1), int_eq(sc.pay[1][0], cols) if 1 in sc.pay else False)
        checks.append(run.check(okc, 'SM DECCOLM did not remember the previous width'))
    elif restored:
        checks.append(run.check(int_eq(Int('isize', scr(L, post, 'saved_columns').disc), 0),
                                'RM DECCOLM restored the width but kept the remembered width'))
    else:
        checks.append(run.check(same(scr(L, pre, 'saved_columns'), scr(L, post, 'saved_columns')),
                                '%s changed the remembered width' % op))
    # ---- margins
    mg = scr(L, post, 'margins')
    if (colm and set_ and cols != 132) or (restored and exp_cols != cols):
        checks.append(run.check(int_eq(Int('isize', mg.disc), 0), 'SM DECCOLM did not reset the scrolling region'))
        m_some, m_top = False, None
    else:
        checks.append(run.check(same(scr(L, pre, 'margins'), mg), '%s changed the scrolling region' % op))
        m_some, m_top = ss.m_some, ss.m_top
    # ---- cursor
    px, py, pattr, phid = cursor_of(L, post)
    _, _, attr0, hid0 = cursor_of(L, pre)
    decom_after = to_z3bool(mode_has(L, post, M['DECOM']))
    if colm or decom:
        if m_some is False:
            hy = z3.BitVecVal(0, 32)
        else:
            hy = z3.If(z3.And(decom_after, to_z3bool(m_some)), m_top, z3.BitVecVal(0, 32))
        checks.append(run.check(z3.And(bv(px) == 0, bv(py) == hy), '%s did not home the cursor' % op))
    else:
        checks.append(run.check(z3.And(bv(px) == ss.cx, bv(py) == ss.cy), '%s moved the cursor' % op))
    exp_attr = attr0
    if scnm:
        exp_attr = attr0.with_field(L.char['reverse'], set_)
    checks.append(run.check(same(pattr, exp_attr), '%s: current rendition is not the old one%s'
                            % (op, ' with reverse video %s' % ('set' if set_ else 'cleared') if scnm else '')))
    exp_hid = hid0
    if tcem:
        exp_hid = not set_
    checks.append(run.check(same(phid, exp_hid), '%s: cursor visibility wrong' % op))
    # ---- grid
    grid = True
    blank = blank_with(L, attr0)
    for y in range(pl):
        for x in range(pc):
            post_alts = cell_alts(L, post, y, x)
            if colm:
                e = [(True, blank)]
            else:
                e = cell_alts(L, pre, y, x) if x < cols else [(True, default_cell(L, pre))]
            if scnm:
                e = [(c, cell.with_field(L.char['reverse'], set_)) for c, cell in e]
            grid = bool_and(grid, alts_equal(e, post_alts))
    checks.append(run.check(grid, '%s: screen content differs from the documented effect (%s)' % (
        op, 'erased' if colm else ('reverse video on every cell' if scnm else 'unchanged'))))
    if scnm or colm:
        alld = True
        for y in range(pl):
            alld = bool_and(alld, dirty_has(L, post, y))
        checks.append(run.check(alld, '%s is a screen-wide change but did not mark all rows dirty' % op))
    frame = fields_same(L, pre, post, except_=('buffer', 'dirty', 'cursor', 'mode', 'margins', 'columns', 'saved_columns'))
    checks.append(run.check(frame, '%s changed tab stops, titles, charsets or the saved-cursor stack' % op))
    return checks


def path_roundtrip(ctx, job, box):
    """SM ?3 then RM ?3: back to the previous width, blank screen, cursor home."""
    cols, lines = job.params['geom']
    if job.params.get('wide'):
        run = GridRun(ctx, box, cols, lines, cursor=(cols - 1, 0), tabstops=1, titles='none', savepoints=0, buffer='none',
                      saved_columns=job.params.get('saved', 'none'))
    else:
        run = GridRun(ctx, box, cols, lines, cursor='pick', tabstops=1, titles='none',
                      saved_columns=job.params.get('saved', 'none'))
    L = run.L
    run.call('set_mode', slice_u32([3]), True)
    run.call('reset_mode', slice_u32([3]), True)
    if run.outcome == 'panic':
        return run.panic_check('DECCOLM round trip panics: %s' % run.msg)
    post = run.post
    _, _, attr0, _ = cursor_of(L, run.pre)
    pc = ctx.concretize(bv(scr(L, post, 'columns')))
    pl = ctx.concretize(bv(scr(L, post, 'lines')))
    checks = [run.check(pc == cols and pl == lines, 'after SM ?3 / RM ?3 the geometry is %dx%d, expected %dx%d' % (pc, pl, cols, lines))]
    if pc != cols or pl != lines:
        return checks
    blank = blank_with(L, attr0)
    grid = True
    for y in range(pl):
        for x in range(pc):
            grid = bool_and(grid, alts_is(cell_alts(L, post, y, x), blank))
    checks.append(run.check(grid, 'after SM ?3 / RM ?3 the screen is not erased'))
    px, py, _, _ = cursor_of(L, post)
    checks.append(run.check(z3.And(bv(px) == 0, bv(py) == 0), 'after SM ?3 / RM ?3 the cursor is not home'))
    sc = scr(L, post, 'saved_columns')
    checks.append(run.check(int_eq(Int('isize', sc.disc), 0), 'after RM ?3 a remembered width is still stored'))
    checks.append(run.check(bool_not(mode_has(L, post, M['DECCOLM'])), 'after RM ?3 DECCOLM is still set'))
    return checks


def jobs(tier):
    js = []
    # three rows are needed for a scrolling region that does not start at the top row
    gs = [(2, 1), (2, 2), (1, 3)] if tier == 'quick' else [(1, 1), (2, 1), (2, 2), (3, 2), (1, 3), (2, 3)]
    for g in gs:
        for op in ('set_mode', 'reset_mode'):
            for n in ((1,) if (tier == 'quick' and g != (2, 1)) else (1, 2)):
                js.append(Job('%s/%d/%dx%d' % (op, n, g[0], g[1]), path_modes, op=op, n=n, geom=g, prop=PROP))
    for op in ('set_mode', 'reset_mode'):
        js.append(Job('csi/%s/1/2x1' % op, path_modes, op=op, n=1, geom=(2, 1), via='csi', prop=PROP))
    if tier == 'thorough':
        for op in ('set_mode', 'reset_mode'):
            js.append(Job('%s/3/1x1' % op, path_modes, op=op, n=3, geom=(1, 1), prop=PROP))
    for g in [(2, 1)] if tier == 'quick' else [(2, 1), (2, 2)]:
        js.append(Job('roundtrip/%dx%d' % g, path_roundtrip, geom=g, prop=PROP))
        js.append(Job('roundtrip+stale/%dx%d' % g, path_roundtrip, geom=g, saved='sym', prop=PROP))
    # a screen that is already 132 columns wide (reached by resize, Screen::new or SM ?3 + RIS):
    # RM restores a remembered width, SM keeps the width
    for op in ('set_mode', 'reset_mode'):
        js.append(Job('%s/?3/132x1' % op, path_modes, op=op, n=1, geom=(132, 1), wide=True, fixed=([3], True), prop=PROP))
        js.append(Job('%s/96/132x1' % op, path_modes, op=op, n=1, geom=(132, 1), wide=True, fixed=([96], False), prop=PROP))
    # a sparsely written larger screen: the per-cell effects (reverse video, erase) far from the origin
    for op in ('set_mode', 'reset_mode'):
        js.append(Job('remote/%s/1/9x6' % op, path_modes, op=op, n=1, geom=(9, 6), remote=True, prop=PROP))
    # screens wider than the 132 columns DECCOLM switches to (and wider than a byte can count)
    for w in ((133, 256) if tier == 'quick' else (131, 133, 140, 255, 256, 257, 300, 512)):
        js.append(Job('set_mode/?3/%dx1' % w, path_modes, op='set_mode', n=1, geom=(w, 1), wide=True, fixed=([3], True), prop=PROP))
        js.append(Job('roundtrip/%dx1' % w, path_roundtrip, geom=(w, 1), wide=True, prop=PROP))
    return js


TIME_BUDGET = {'quick': 600, 'thorough': 3000}

META = {
    'functions': ['set_mode', 'reset_mode', 'Screen::resize', 'erase_in_display', 'cursor_position',
                  'select_graphic_rendition', 'CharOpts::update_from_map', 'ParserListener::csi_dispatch'],
    'bounds': 'mode lists of 1..2 (thorough 3) symbolic numbers 0..=9999 with a symbolic private flag, from symbolic '
              'states on {2x1,2x2,1x3} (thorough + {1x1,3x2,2x3}); the 132-column switch is executed for real; the DECCOLM '
              'round trip SM ?3 / RM ?3 from every state',
    'outside': 'longer mode lists; grids wider than 3 columns other than a sparsely written 9x6 one, the 132-column cases and the never-written '
               'wide screens (quick 133, 256; thorough 131..512 columns) on which SM ?3 and the round trip are run',
}
