"""C05 -- cursor movement and addressing follow the documented clamping rules.

Parametric geometry (columns 1..=300, lines 1..=300 symbolic), symbolic cursor (incl. pending-wrap
column), margins, DECOM, both parameters {absent} U 0..=9999.  Oracle: closed forms written from the
statement.  Two families: direct API calls, and csi_dispatch(final, params) for the parameter mapping."""
import z3

from ..values import *
from ..engine import Engine, bool_and, bool_or, bool_not, to_z3bool, int_eq
from ..harness import Job, Check, G
from ..state import Session, snapshot, opt_u32, slice_u32
from ..symstate import SymScreen, sym_opt_u32, opt_parts, same, bvv

PROP = 'C05'
GEOM_MAX = (300, 300)

ONE = ['cursor_up', 'cursor_down', 'cursor_forward', 'cursor_back', 'cursor_down1', 'cursor_up1',
       'cursor_to_column', 'cursor_to_line']
TWO = ['cursor_position']
NOARG = ['backspace', 'cariage_return']

# final byte -> (operation, number of parameters used)
FINALS = {'A': 'cursor_up', 'B': 'cursor_down', 'C': 'cursor_forward', 'D': 'cursor_back',
          'E': 'cursor_down1', 'F': 'cursor_up1', 'G': 'cursor_to_column', 'H': 'cursor_position',
          'a': 'cursor_forward', 'd': 'cursor_to_line', 'e': 'cursor_down', 'f': 'cursor_position'}


def umin(a, b):
    return z3.If(z3.ULE(a, b), a, b)


def umax(a, b):
    return z3.If(z3.UGE(a, b), a, b)


def eff(opt):
    """1-based parameter: absent or zero means 1 (as 64-bit to avoid wrap in the reference)."""
    is_some, n = opt
    if type(n) is Int:
        n = n.v
    nv = z3.ZeroExt(32, n) if not isinstance(n, int) else z3.BitVecVal(n, 64)
    if is_some is True:
        return z3.If(nv == 0, z3.BitVecVal(1, 64), nv)
    if is_some is False:
        return z3.BitVecVal(1, 64)
    return z3.If(z3.And(is_some, nv != 0), nv, z3.BitVecVal(1, 64))


def expected(op, ss, a, b):
    """Reference semantics from the statement: (x', y') as 64-bit terms."""
    Z = lambda v: z3.ZeroExt(32, v) if not isinstance(v, int) else z3.BitVecVal(v, 64)
    C, Ln = Z(ss.cols), Z(ss.lines)
    x, y = Z(ss.cx), Z(ss.cy)
    has_m = to_z3bool(ss.m_some)
    top = z3.If(has_m, Z(ss.m_top), z3.BitVecVal(0, 64)) if ss.m_top is not None else z3.BitVecVal(0, 64)
    bot = z3.If(has_m, Z(ss.m_bot), Ln - 1) if ss.m_bot is not None else Ln - 1
    decom = to_z3bool(ss.mode_in['DECOM'])
    one = z3.BitVecVal(1, 64)
    zero = z3.BitVecVal(0, 64)
    n = eff(a) if a is not None else one
    if op == 'cursor_up' or op == 'cursor_up1':
        yy = z3.If(z3.UGE(y, n), y - n, zero)
        ny = umax(yy, top)
        return (zero if op == 'cursor_up1' else x), ny
    if op == 'cursor_down' or op == 'cursor_down1':
        ny = umin(y + n, bot)
        return (zero if op == 'cursor_down1' else x), ny
    if op == 'cursor_forward':
        return umin(x + n, C - 1), y
    if op in ('cursor_back', 'backspace'):
        xe = umin(x, C - 1)
        return z3.If(z3.UGE(xe, n), xe - n, zero), y
    if op == 'cariage_return':
        return zero, y
    if op == 'cursor_to_column':
        return umin(n - 1, C - 1), y
    if op == 'cursor_to_line':
        rel = z3.And(decom, has_m)
        line = z3.If(rel, n - 1 + top, n - 1)
        lo = z3.If(rel, top, zero)
        hi = z3.If(rel, bot, Ln - 1)
        return x, umin(umax(line, lo), hi)
    if op == 'cursor_position':
        m = eff(b)
        rel = z3.And(decom, has_m)
        line = z3.If(rel, n - 1 + top, n - 1)
        ignored = z3.And(rel, z3.Or(z3.ULT(line, top), z3.UGT(line, bot)))
        lo = z3.If(rel, top, zero)
        hi = z3.If(rel, bot, Ln - 1)
        nx = umin(m - 1, C - 1)
        ny = umin(umax(line, lo), hi)
        return z3.If(ignored, x, nx), z3.If(ignored, y, ny)
    raise KeyError(op)


def frame_ok(L, pre, post):
    """Everything except cursor.x / cursor.y is unchanged."""
    r = True
    S = L.screen
    for name, i in S.items():
        if name == 'cursor':
            cp, cq = pre.f[i], post.f[i]
            for cn, ci in L.cursor.items():
                if cn in ('x', 'y'):
                    continue
                r = bool_and(r, same(cp.f[ci], cq.f[ci]))
        else:
            r = bool_and(r, same(pre.f[i], post.f[i]))
    return r


def jval(model, o):
    """JSON value of a symbolic Option<u32> under a model."""
    is_some, n = opt_parts(o)
    if is_some is True or (is_some is not False and z3.is_true(model.eval(is_some, model_completion=True))):
        v = n.v
        return v if type(v) is int else model.eval(v, model_completion=True).as_long()
    return None


def path_api(ctx, job, box):
    prog, L = G['prog'], G['L']
    eng = Engine(prog, ctx)
    box['eng'] = eng
    op = job.params['op']
    ss = SymScreen(ctx, eng, L, buffer='one', tabstops=1, savepoints=0, geom_max=GEOM_MAX)
    ses = Session(eng, L, screen=ss.value)
    pre = ss.value
    a = b = None
    args = []
    if op in ONE or op in TWO:
        a = sym_opt_u32(ctx, 'a')
        args.append(a)
    if op in TWO:
        b = sym_opt_u32(ctx, 'b')
        args.append(b)
    outcome = 'ok'
    msg = None
    try:
        ses.op(op, *args)
    except Panic as e:
        outcome = 'panic'
        msg = str(e)
    post = ses.screen

    def steps(model):
        return [[op] + [jval(model, x) for x in args]]

    def scenario(model):
        st = snapshot(eng, L, pre, model)
        sc = {'cols': st['columns'], 'lines': st['lines'], 'state': st, 'steps': steps(model)}
        if outcome == 'panic':
            return sc, {'ok': False, 'panic': msg, 'out': []}
        return sc, {'ok': True, 'out': [snapshot(eng, L, post, model)]}

    def describe(model):
        st = snapshot(eng, L, pre, model)
        return {'geom': [st['columns'], st['lines']], 'cursor': [st['cursor']['x'], st['cursor']['y']],
                'margins': st['margins'], 'DECOM': 192 in st['mode'], 'call': steps(model)[0],
                'outcome': outcome if outcome == 'ok' else 'panic: ' + str(msg)}

    if outcome == 'panic':
        return Check(False, scenario, describe, outcome='panic', label='panic: %s' % msg)
    ex, ey = expected(op, ss, opt_parts(a) if a is not None else None, opt_parts(b) if b is not None else None)
    cur = post.f[L.screen['cursor']]
    px = z3.ZeroExt(32, bv(cur.f[L.cursor['x']]))
    py = z3.ZeroExt(32, bv(cur.f[L.cursor['y']]))
    okpos = z3.And(px == ex, py == ey)
    return [Check(okpos, scenario, describe, label='cursor position differs from the documented rule'),
            Check(frame_ok(L, pre, post), scenario, describe, label='state other than the cursor position changed')]


def path_csi(ctx, job, box):
    """csi_dispatch(final, params, private=false) on Screen: parameter-position mapping."""
    prog, L = G['prog'], G['L']
    eng = Engine(prog, ctx)
    box['eng'] = eng
    fin = job.params['final']
    nparams = job.params['nparams']
    op = FINALS[fin]
    ss = SymScreen(ctx, eng, L, buffer='one', tabstops=1, geom_max=GEOM_MAX)
    ses = Session(eng, L, screen=ss.value)
    pre = ss.value
    ps = []
    for i in range(nparams):
        v = ctx.bvvar('p%d' % i, 32)
        ctx.assume(z3.ULE(v, 9999))
        ps.append(Int('u32', v))
    outcome, msg = 'ok', None
    try:
        eng.call_path('<T as ParserListener>::csi_dispatch',
                      [ses.sref, Str.of(fin), slice_u32(ps), False], {'T': 'Screen'})
    except Panic as e:
        outcome, msg = 'panic', str(e)
    post = ses.screen

    def pvals(model):
        return [model.eval(p.v, model_completion=True).as_long() for p in ps]

    def scenario(model):
        st = snapshot(eng, L, pre, model)
        sc = {'cols': st['columns'], 'lines': st['lines'], 'state': st,
              'steps': [['csi_dispatch', fin, pvals(model), False]]}
        if outcome == 'panic':
            return sc, {'ok': False, 'panic': msg, 'out': []}
        return sc, {'ok': True, 'out': [snapshot(eng, L, post, model)]}

    def describe(model):
        st = snapshot(eng, L, pre, model)
        return {'geom': [st['columns'], st['lines']], 'cursor': [st['cursor']['x'], st['cursor']['y']],
                'margins': st['margins'], 'DECOM': 192 in st['mode'], 'csi': [fin, pvals(model)],
                'outcome': outcome if outcome == 'ok' else 'panic: ' + str(msg)}

    if outcome == 'panic':
        return Check(False, scenario, describe, outcome='panic', label='panic: %s' % msg)
    a = (True, ps[0].v) if nparams >= 1 else (False, 0)
    b = (True, ps[1].v) if nparams >= 2 else (False, 0)
    ex, ey = expected(op, ss, a, b)
    cur = post.f[L.screen['cursor']]
    px = z3.ZeroExt(32, bv(cur.f[L.cursor['x']]))
    py = z3.ZeroExt(32, bv(cur.f[L.cursor['y']]))
    return [Check(z3.And(px == ex, py == ey), scenario, describe,
                  label='CSI %s: cursor position differs from the documented rule' % fin),
            Check(frame_ok(L, pre, post), scenario, describe, label='CSI %s changed state other than the cursor' % fin)]


def path_parser(ctx, job, box):
    """End to end: CSI [digits] [; digits] final through Parser<Screen> -- parameter collection, defaulting
    (an omitted number reaches the screen as 0) and the motion rule together."""
    from ..state import Ev
    from .common import fields_same
    prog, L = G['prog'], G['L']
    eng = Engine(prog, ctx)
    box['eng'] = eng
    fin = job.params['final']
    nd1, nd2 = job.params['digits']
    op = FINALS[fin]
    ss = SymScreen(ctx, eng, L, buffer='none', tabstops=0, savepoints=0, titles='none', saved_columns='none', geom_max=GEOM_MAX)
    ses = Session(eng, L, screen=ss.value)
    pre = ss.value

    def digits(tag, n):
        ds = []
        for i in range(n):
            d = ctx.bvvar('%s%d' % (tag, i), 32)
            ctx.assume(z3.And(z3.UGE(d, 48), z3.ULE(d, 57)))
            ds.append(d)
        return ds

    def value(ds):
        v = z3.BitVecVal(0, 32)
        for d in ds:
            v = v * 10 + (d - 48)
        return v
    d1 = digits('a', nd1)
    d2 = digits('b', nd2) if nd2 is not None else None
    chars = [0x9b] + d1 + ([ord(';')] + d2 if d2 is not None else []) + [ord(fin)]
    # an earlier control sequence that was aborted (CAN/SUB) or skipped (`$` + final) after a completed
    # parameter: nothing of it may reach the sequence under test
    pk = job.params.get('prefix')
    if pk:
        e = digits('e', 1)
        ab = ctx.bvvar('abort', 32)
        ctx.assume(z3.Or(ab == 0x18, ab == 0x1a))
        pre_chars = {'abort': [0x9b] + e + [ord(';'), ab], 'skip': [0x9b] + e + [ord(';'), ord('$'), ord('x')]}[pk]
    else:
        pre_chars = []
    outcome, msg = 'ok', None
    mid = pre
    try:
        if pre_chars:
            # (the abort character is handed to draw(), which may touch the dirty set: the sequence under
            # test is judged from the state the prefix leaves)
            ses.feed(Str(tuple(pre_chars)))
            mid = ses.screen
        ses.feed(Str(tuple(chars)))
    except Panic as e:
        outcome, msg = 'panic', str(e)
    post = ses.screen
    chunks = ([pre_chars] if pre_chars else []) + [chars]

    def jsteps(model):
        ev = Ev(model)
        return [['feed_cps', [ev.int(c) for c in ch]] for ch in chunks]

    def scenario(model):
        st = snapshot(eng, L, pre, model)
        sc = {'cols': st['columns'], 'lines': st['lines'], 'state': st, 'steps': jsteps(model)}
        if outcome == 'panic':
            return sc, {'ok': False, 'panic': msg, 'out': []}
        return sc, {'ok': True, 'out': [snapshot(eng, L, post, model)]}

    def describe(model):
        st = snapshot(eng, L, pre, model)
        return {'geom': [st['columns'], st['lines']], 'cursor': [st['cursor']['x'], st['cursor']['y']],
                'margins': st['margins'], 'DECOM': 192 in st['mode'],
                'input': ''.join(chr(c) for st_ in jsteps(model) for c in st_[1]).encode('unicode_escape').decode(),
                'outcome': outcome if outcome == 'ok' else 'panic: ' + str(msg)}

    if outcome == 'panic':
        return Check(False, scenario, describe, outcome='panic', label='panic: %s' % msg)
    a = (True, value(d1))            # the recogniser always delivers a first parameter (0 when omitted)
    b = (True, value(d2)) if d2 is not None else (False, 0)
    ex, ey = expected(op, ss, a, b)
    cur = post.f[L.screen['cursor']]
    px = z3.ZeroExt(32, bv(cur.f[L.cursor['x']]))
    py = z3.ZeroExt(32, bv(cur.f[L.cursor['y']]))
    return [Check(z3.And(px == ex, py == ey), scenario, describe,
                  label='CSI %s through the parser: cursor position differs from the documented rule' % fin),
            Check(bool_and(frame_ok(L, mid, post), fields_same(L, pre, mid, except_=('buffer', 'dirty'))), scenario, describe,
                  label='CSI %s through the parser changed other state' % fin)]


def jobs(tier):
    js = []
    for fin in FINALS:
        shapes = [(0, None), (1, None), (2, None)]
        if FINALS[fin] == 'cursor_position':
            shapes += [(0, 0), (1, 1), (0, 2), (2, 0)]
        for sh in shapes:
            js.append(Job('parser/%s/%s' % (fin, '%d' % sh[0] + ('' if sh[1] is None else ';%d' % sh[1])), path_parser,
                          final=fin, digits=sh, prop=PROP))
    for pk in ('abort', 'skip'):
        for fin in ('C', 'B', 'H', 'd'):
            for sh in ((0, None), (1, None)):
                js.append(Job('parser-after-%s/%s/%d' % (pk, fin, sh[0]), path_parser, final=fin, digits=sh, prefix=pk, prop=PROP))
    for op in ONE + TWO + NOARG:
        js.append(Job('api/' + op, path_api, op=op, prop=PROP))
    for fin in FINALS:
        for n in ((0, 1, 2) if tier == 'quick' else (0, 1, 2, 3)):
            js.append(Job('csi/%s/%d' % (fin, n), path_csi, final=fin, nparams=n, prop=PROP))
    return js


META = {
    'functions': ['cursor_up', 'cursor_down', 'cursor_forward', 'cursor_back', 'cursor_up1', 'cursor_down1',
                  'cursor_to_column', 'cursor_to_line', 'cursor_position', 'backspace', 'cariage_return',
                  'ensure_hbounds', 'ensure_vbounds', 'ParserListener::csi_dispatch'],
    'bounds': 'columns 1..=300 and lines 1..=300 symbolic; cursor x in 0..=columns, y in 0..lines; margins absent or '
              '0<=top<bottom<=lines-1; DECOM and every other mode symbolic; each parameter absent or 0..=9999; '
              'csi_dispatch with 0..2 (thorough 3) parameters for finals A B C D E F G H a d e f; the same finals end to end '
              'through Parser<Screen> with 0..2 symbolic digits per parameter, also right after a CSI that was aborted by '
              'CAN/SUB or skipped by `$` with a completed parameter',
    'outside': 'geometries above 300x300; parameters above 9999 (the recogniser saturates there); the recogniser itself (C03)',
}
