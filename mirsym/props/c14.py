"""C14 -- DECSC/DECRC save and restore the cursor state as a LIFO stack.

save pushes an exact copy; restore pops the top and reinstates it per the statement; every other
operation leaves the stack unchanged.  LIFO for nested pairs follows by induction on the depth."""
import z3

from ..values import *
from ..engine import Engine, bool_and, bool_or, bool_not, to_z3bool
from ..harness import Job, Check, G
from ..state import Session, snapshot, MODES
from ..symstate import SymScreen, same
from .. import stdlib
from .common import *
from . import sweep

PROP = 'C14'


def mode_set_same_except(L, pre, post, added=(), removed=()):
    """mode' == (mode U added) \\ removed, as z3 Bool (membership of an arbitrary probe number)."""
    def f(ctx):
        v = ctx.bvvar('probe_mode', 32)
        was = to_z3bool(stdlib.map_contains(None, scr(L, pre, 'mode'), Int('u32', v)))
        now = to_z3bool(stdlib.map_contains(None, scr(L, post, 'mode'), Int('u32', v)))
        exp = was
        for (num, cond) in added:
            exp = z3.Or(exp, z3.And(to_z3bool(cond), v == num))
        for (num, cond) in removed:
            exp = z3.And(exp, z3.Not(z3.And(to_z3bool(cond), v == num)))
        return now == exp
    return f


def path_save(ctx, job, box):
    geom = job.params.get('geom')
    via = job.params.get('via', 'api')
    spopt = job.params['sp'] if job.params['sp'] <= 2 else ('deep', job.params['sp'])
    if geom:
        run = GridRun(ctx, box, geom[0], geom[1], cursor='pick', tabstops=1, savepoints=spopt,
                      sp_charsets='fixed', charset='symsel')
    else:
        run = GridRun(ctx, box, None, None, buffer='one', tabstops=1, savepoints=spopt,
                      sp_charsets='fixed', charset='symsel', geom_max=(300, 300))
    L = run.L
    if via == 'api':
        run.call('save_cursor')
    else:
        run.calls.append(('escape_dispatch', (Str.of('7'),)))
        try:
            run.eng.call_path('<T as ParserListener>::escape_dispatch', [run.ses.sref, Str.of('7')], {'T': 'Screen'})
        except Panic as e:
            run.outcome, run.msg = 'panic', str(e)
    if run.outcome == 'panic':
        return run.panic_check('save_cursor panics: %s' % run.msg)
    pre, post = run.pre, run.post
    sp_pre = scr(L, pre, 'savepoints').items
    sp_post = scr(L, post, 'savepoints').items
    P = L.savepoint
    if len(sp_post) != len(sp_pre) + 1:
        return run.check(False, 'DECSC did not push exactly one entry')
    prefix = True
    for a, b in zip(sp_pre, sp_post):
        prefix = bool_and(prefix, same(a, b))
    top = sp_post[-1]
    exact = True
    exact = bool_and(exact, same(top.f[P['cursor']], scr(L, pre, 'cursor')))
    exact = bool_and(exact, same(top.f[P['g0_charset']], scr(L, pre, 'g0_charset')))
    exact = bool_and(exact, same(top.f[P['g1_charset']], scr(L, pre, 'g1_charset')))
    exact = bool_and(exact, same(top.f[P['charset']], scr(L, pre, 'charset')))
    exact = bool_and(exact, bool_eq(top.f[P['origin']], mode_has(L, pre, MODES['DECOM'])))
    exact = bool_and(exact, bool_eq(top.f[P['wrap']], mode_has(L, pre, MODES['DECAWM'])))
    frame = fields_same(L, pre, post, except_=('savepoints',))
    return [run.check(prefix, 'DECSC altered entries below the top of the stack'),
            run.check(exact, 'DECSC: the pushed entry is not an exact copy of position, rendition, visibility, charsets, DECOM, DECAWM'),
            run.check(frame, 'DECSC changed state other than the stack')]


def path_restore(ctx, job, box):
    geom = job.params.get('geom')
    nsp = job.params['sp']
    via = job.params.get('via', 'api')
    spopt = nsp if nsp <= 2 else ('deep', nsp)
    if geom:
        run = GridRun(ctx, box, geom[0], geom[1], cursor='pick', tabstops=1, savepoints=spopt, sp_charsets='fixed',
                      charset='symsel')
    else:
        run = GridRun(ctx, box, None, None, buffer='one', tabstops=1, savepoints=spopt, sp_charsets='fixed',
                      charset='symsel', geom_max=(300, 300))
    L = run.L
    ss = run.ss
    if via == 'api':
        run.call('restore_cursor')
    else:
        run.calls.append(('escape_dispatch', (Str.of('8'),)))
        try:
            run.eng.call_path('<T as ParserListener>::escape_dispatch', [run.ses.sref, Str.of('8')], {'T': 'Screen'})
        except Panic as e:
            run.outcome, run.msg = 'panic', str(e)
    if run.outcome == 'panic':
        return run.panic_check('restore_cursor panics: %s' % run.msg)
    pre, post = run.pre, run.post
    sp_pre = scr(L, pre, 'savepoints').items
    sp_post = scr(L, post, 'savepoints').items
    P = L.savepoint
    px, py, pattr, phid = cursor_of(L, post)
    Z = lambda v: bv(v) if type(v) is Int else (z3.BitVecVal(v, 32) if isinstance(v, int) else v)
    C, Ln = Z(ss.cols), Z(ss.lines)
    checks = []
    if nsp == 0:
        if len(sp_post) != 0:
            return run.check(False, 'DECRC on an empty stack produced entries')
        pos = z3.And(bv(px) == 0, bv(py) == 0)
        checks.append(run.check(pos, 'DECRC on an empty stack does not home the cursor'))
        modes = mode_set_same_except(L, pre, post, removed=[(MODES['DECOM'], True)])(ctx)
        checks.append(run.check(modes, 'DECRC on an empty stack: mode set is not the old one minus DECOM'))
        frame = bool_and(fields_same(L, pre, post, except_=('cursor', 'mode')), cursor_same(L, pre, post, except_=('x', 'y')))
        checks.append(run.check(frame, 'DECRC on an empty stack changed other state'))
        return checks
    if len(sp_post) != nsp - 1:
        return run.check(False, 'DECRC did not pop exactly one entry')
    rest = True
    for a, b in zip(sp_pre[:-1], sp_post):
        rest = bool_and(rest, same(a, b))
    checks.append(run.check(rest, 'DECRC altered entries below the top of the stack (not LIFO)'))
    top = sp_pre[-1]
    sc = top.f[P['cursor']]
    sx, sy = bv(sc.f[L.cursor['x']]), bv(sc.f[L.cursor['y']])
    has_m = to_z3bool(ss.m_some)
    lo = z3.If(has_m, Z(ss.m_top), z3.BitVecVal(0, 32)) if ss.m_top is not None else z3.BitVecVal(0, 32)
    hi = z3.If(has_m, Z(ss.m_bot), Ln - 1) if ss.m_bot is not None else Ln - 1
    ex = z3.If(z3.ULE(sx, C - 1), sx, C - 1)
    ey = z3.If(z3.ULT(sy, lo), lo, z3.If(z3.UGT(sy, hi), hi, sy))
    checks.append(run.check(z3.And(bv(px) == ex, bv(py) == ey),
                            'DECRC: restored position is not the saved one clamped into the screen and scrolling region'))
    rend = bool_and(same(pattr, sc.f[L.cursor['attr']]), same(phid, sc.f[L.cursor['hidden']]))
    checks.append(run.check(rend, 'DECRC: rendition or visibility not reinstated'))
    cs = bool_and(bool_and(same(scr(L, post, 'g0_charset'), top.f[P['g0_charset']]),
                           same(scr(L, post, 'g1_charset'), top.f[P['g1_charset']])),
                  same(scr(L, post, 'charset'), top.f[P['charset']]))
    checks.append(run.check(cs, 'DECRC: G0/G1/shift state not reinstated'))
    modes = mode_set_same_except(L, pre, post, added=[(MODES['DECOM'], top.f[P['origin']]),
                                                        (MODES['DECAWM'], top.f[P['wrap']])])(ctx)
    checks.append(run.check(modes, 'DECRC: mode set is not the old one plus the saved DECOM/DECAWM'))
    frame = fields_same(L, pre, post, except_=('cursor', 'mode', 'savepoints', 'g0_charset', 'g1_charset', 'charset'))
    checks.append(run.check(frame, 'DECRC changed content, margins, tab stops or other state'))
    return checks


def path_others(ctx, job, box):
    cols, lines = job.params['geom']
    label, op, mk = job.params['opspec']
    run = GridRun(ctx, box, cols, lines, cursor='pick', tabstops=1, savepoints=1, sp_charsets='fixed',
                  titles='none', saved_columns='none', extra_mode=False)
    L = run.L
    run.call(op, *mk(ctx))
    if run.outcome == 'panic':
        return run.panic_check('%s panics: %s' % (label, run.msg))
    return run.check(same(scr(L, run.pre, 'savepoints'), scr(L, run.post, 'savepoints')),
                     '%s changed the saved-cursor stack' % label)


def jobs(tier):
    js = []
    for via in ('api', 'esc'):
        for sp in (0, 1, 2):
            js.append(Job('save/%s/param/%d' % (via, sp), path_save, geom=None, sp=sp, via=via, prop=PROP))
            js.append(Job('restore/%s/param/%d' % (via, sp), path_restore, geom=None, sp=sp, via=via, prop=PROP))
    # deep stacks: a cap or a narrowed depth counter shows only there
    deep = (15, 16, 17, 64, 255, 256) if tier == 'quick' else (3, 7, 8, 9, 10, 15, 16, 17, 31, 32, 33, 63, 64, 65, 99, 100,
                                                               127, 128, 129, 255, 256, 257, 999, 1000, 1023, 1024, 1025)
    for sp in deep:
        js.append(Job('save/api/param/deep%d' % sp, path_save, geom=None, sp=sp, via='api', prop=PROP))
        js.append(Job('restore/api/param/deep%d' % sp, path_restore, geom=None, sp=sp, via='api', prop=PROP))
    for g in [(2, 2)] if tier == 'quick' else [(2, 2), (3, 2)]:
        for sp in (0, 1, 2):
            js.append(Job('save/api/%dx%d/%d' % (g[0], g[1], sp), path_save, geom=g, sp=sp, prop=PROP))
            js.append(Job('restore/api/%dx%d/%d' % (g[0], g[1], sp), path_restore, geom=g, sp=sp, prop=PROP))
    for g in [(2, 1)] if tier == 'quick' else [(2, 1), (2, 2)]:
        for spec in sweep.ops(tier, g[0], g[1]):
            if spec[1] in ('save_cursor', 'restore_cursor') or spec[0].endswith('any2'):
                continue
            js.append(Job('others/%s/%dx%d' % (spec[0], g[0], g[1]), path_others, opspec=spec, geom=g, prop=PROP))
    return js


META = {
    'functions': ['save_cursor', 'restore_cursor', 'set_mode', 'reset_mode', 'cursor_position', 'ensure_hbounds',
                  'ensure_vbounds', 'ParserListener::escape_dispatch', 'every other operation of the sweep (stack untouched)'],
    'bounds': 'symbolic geometry 1..=300 x 1..=300 and 2x2 (thorough +3x2) grids; stack depth 0..2 (plus deep stacks whose lower entries share one symbolic value) with symbolic saved '
              'positions (0..=400, i.e. outside the screen too), renditions, visibility, charset triple, DECOM/DECAWM '
              'flags; current margins, modes, cursor symbolic',
    'outside': 'stack depths other than 0..2 and the listed deep ones (quick 15,16,17,64,255,256; thorough 27 depths up '
               'to 1025; entries below the top are shown untouched, so other depths follow by induction unless the code '
               'treats a particular depth specially)',
}
