"""Shared pieces of the per-property harnesses: one listener call (or a short sequence) from a symbolic
pre-state on a concrete geometry, the observable abstraction alpha, and no-fork cell comparison."""
import z3

from ..values import *
from ..engine import Engine, bool_and, bool_or, bool_not, bool_eq, to_z3bool, int_eq
from ..harness import Job, Check, G
from ..state import Session, snapshot, MODES, FLAG_NAMES, Ev
from ..symstate import SymScreen, sym_opt_u32, opt_parts, same, map_same, bvv, colour_choice
from .. import stdlib


def jarg(model, v):
    """JSON rendering of an engine argument value under a model."""
    ev = Ev(model)
    if type(v) is Enum and v.ty == 'Option':
        d = v.disc if type(v.disc) is int else ev.int(v.disc)
        return None if d == 0 else jarg(model, v.pay[1][0])
    if type(v) is Int:
        return ev.int(v)
    if type(v) is bool or isinstance(v, z3.BoolRef):
        return ev.bool(v)
    if type(v) is Str or type(v) is SChoice:
        return ev.str(v)
    if type(v) is Agg and v.name == '[]':
        return [jarg(model, x) for x in v.f]
    raise Unmodelled('jarg %r' % (v,))


# JSON step shapes mt-replay understands: which args are dropped (the `private` Option of ED/EL)
DROP_LAST = {'erase_in_display', 'erase_in_line', 'report_device_attributes'}


class GridRun:
    def __init__(self, ctx, box, cols, lines, **opts):
        self.ctx = ctx
        self.prog, self.L = G['prog'], G['L']
        self.eng = Engine(self.prog, ctx)
        box['eng'] = self.eng
        self.ss = SymScreen(ctx, self.eng, self.L, cols, lines, **opts)
        self.ses = Session(self.eng, self.L, screen=self.ss.value)
        self.pre = self.ss.value
        self.calls = []
        self.outcome = 'ok'
        self.msg = None
        self.mid = []   # screen value after each call
        self.displays = []

    def call(self, op, *args):
        self.calls.append((op, args))
        try:
            r = self.ses.op(op, *args)
            self.mid.append(self.ses.screen)
            if op == 'display':
                self.displays.append(deref_all(r))
            return r
        except Panic as e:
            self.outcome = 'panic'
            self.msg = str(e)
            return None

    @property
    def post(self):
        return self.ses.screen

    def steps(self, model):
        out = []
        for op, args in self.calls:
            if op == '@raw':
                out.append(args)
                continue
            if op == '@feed':
                ev = Ev(model)
                out.append(['feed_cps', [ev.int(c) for c in args]])
                continue
            a = [jarg(model, x) for x in args]
            if op in DROP_LAST:
                a = a[:-1]
            out.append([op] + a)
        return out

    def scenario(self, model):
        st = snapshot(self.eng, self.L, self.pre, model)
        sc = {'cols': st['columns'], 'lines': st['lines'], 'state': st, 'steps': self.steps(model)}
        if self.outcome == 'panic':
            return sc, {'ok': False, 'panic': self.msg, 'out': []}
        # display() results are part of mt-replay's output list, in call order
        ev = Ev(model)
        outs = [[ev.str(x) for x in d.items] for d in self.displays]
        outs.append(snapshot(self.eng, self.L, self.post, model))
        return sc, {'ok': True, 'out': outs}

    def describe(self, model):
        st = snapshot(self.eng, self.L, self.pre, model)
        rows = {}
        for y, r in st['buffer'].items():
            rows[y] = {x: c[0] for x, c in r.items()}
        modes = [n for n, v in MODES.items() if v in st['mode']]
        return {'geom': [st['columns'], st['lines']], 'cursor': [st['cursor']['x'], st['cursor']['y']],
                'margins': st['margins'], 'modes': modes, 'written_cells': rows, 'calls': self.steps(model),
                'outcome': self.outcome if self.outcome == 'ok' else 'panic: ' + str(self.msg)}

    def panic_check(self, label=None):
        return Check(False, self.scenario, self.describe, outcome='panic',
                     label=label or ('panic: %s' % self.msg))

    def check(self, ok, label):
        return Check(ok, self.scenario, self.describe, label=label)


# --------------------------------------------------------------------------- alpha: cells without forking

def scr(L, s, name):
    return s.f[L.screen[name]]


def mode_has(L, s, num):
    """Membership of a mode number as bool / z3 Bool."""
    return stdlib.map_contains(None, scr(L, s, 'mode'), Int('u32', num))


_default_cache = {}


def default_cell(L, s):
    mo = scr(L, s, 'mode')
    hit = _default_cache.get(id(mo))
    if hit is not None and hit[0] is mo:
        return hit[1]
    d = _default_cell(L, s)
    if len(_default_cache) > 2000:
        _default_cache.clear()
    _default_cache[id(mo)] = (mo, d)
    return d


def _default_cell(L, s):
    f = [None] * len(L.char)
    f[L.char['data']] = Str.of(' ')
    f[L.char['fg']] = Str.of('default')
    f[L.char['bg']] = Str.of('default')
    for n in FLAG_NAMES:
        f[L.char[n]] = False
    f[L.char['reverse']] = mode_has(L, s, MODES['DECSCNM'])
    return Agg('CharOpts', f)


def blank_with(L, attr):
    """Blank cell carrying a rendition."""
    return attr.with_field(L.char['data'], Str.of(' '))


def cell_alts(L, s, y, x):
    """Alternatives for the content of cell (y,x): list of (cond, cell); exhaustive and exclusive
    (given the map invariant of distinct keys).  Absent cells are the current default blank."""
    buf = scr(L, s, 'buffer')
    alts = []
    row_present = False
    yk = y if type(y) is Int else Int('u32', y)
    xk = x if type(x) is Int else Int('u32', x)

    def entries(m, key):
        if type(key.v) is int:
            d, sym = m.index()
            return [m.e[i] for i in d.get(key.v, ())] + [m.e[i] for i in sym]
        return m.e

    for (ky, py, row) in entries(buf, yk):
        cy = bool_and(py, int_eq(ky, yk))
        if cy is False:
            continue
        cell_present = False
        for (kx, px, cell) in entries(row, xk):
            cx = bool_and(px, int_eq(kx, xk))
            if cx is False:
                continue
            c = bool_and(cy, cx)
            alts.append((c, cell))
            cell_present = bool_or(cell_present, cx)
        row_present = bool_or(row_present, bool_and(cy, cell_present))
    absent = bool_not(row_present)
    if absent is not False:
        alts.append((absent, default_cell(L, s)))
    return alts


def alts_equal(a, b):
    """Two alternative lists denote the same cell."""
    r = True
    for ca, va in a:
        for cb, vb in b:
            if va is vb:
                continue
            both = bool_and(ca, cb)
            if both is False:
                continue
            sv = same(va, vb)
            if sv is True:
                continue
            r = bool_and(r, bool_or(bool_not(both), sv))
            if r is False:
                return False
    return r


def alts_is(a, cell):
    return alts_equal(a, [(True, cell)])


def cursor_of(L, s):
    c = scr(L, s, 'cursor')
    return c.f[L.cursor['x']], c.f[L.cursor['y']], c.f[L.cursor['attr']], c.f[L.cursor['hidden']]


def fields_same(L, pre, post, except_=()):
    """All Screen fields other than the named ones are unchanged (structurally)."""
    r = True
    for name, i in L.screen.items():
        if name in except_:
            continue
        r = bool_and(r, same(pre.f[i], post.f[i]))
        if r is False:
            return False
    return r


def cursor_same(L, pre, post, except_=()):
    cp, cq = scr(L, pre, 'cursor'), scr(L, post, 'cursor')
    r = True
    for n, i in L.cursor.items():
        if n in except_:
            continue
        r = bool_and(r, same(cp.f[i], cq.f[i]))
    return r


def grid_same_except(L, pre, post, cols, lines, changed):
    """alpha-cells equal for all (y,x) not in `changed` (a python predicate or set)."""
    r = True
    for y in range(lines):
        for x in range(cols):
            if (callable(changed) and changed(y, x)) or (not callable(changed) and (y, x) in changed):
                continue
            r = bool_and(r, alts_equal(cell_alts(L, pre, y, x), cell_alts(L, post, y, x)))
            if r is False:
                return False
    return r


def dirty_has(L, s, y):
    return stdlib.map_contains(None, scr(L, s, 'dirty'), Int('u32', y))


def no_hidden(L, s, cols, lines):
    """Inv_aux: no buffer row key >= lines and no cell key >= columns."""
    r = True
    buf = scr(L, s, 'buffer')
    for (ky, py, row) in buf.e:
        if py is False:
            continue
        inr = z3.ULT(bv(ky), lines) if not ky.concrete else ky.v < lines
        r = bool_and(r, bool_or(bool_not(py), inr))
        for (kx, px, cell) in row.e:
            if px is False:
                continue
            inc = z3.ULT(bv(kx), cols) if not kx.concrete else kx.v < cols
            r = bool_and(r, bool_or(bool_not(bool_and(py, px)), inc))
    return r


def hidden_same(L, a, b, cols, lines):
    """The storage beyond the screen (row keys >= lines, cell keys >= columns) of two states is identical:
    every position there holds the same cell in both (absent = default blank).  (What is stored out of sight is not observable
    now, but a later growth shows it, so two states that are to behave alike from here on must agree on it.)"""
    keys = set()
    for s in (a, b):
        for (ky, py, row) in scr(L, s, 'buffer').e:
            if py is False or not ky.concrete:
                continue
            for (kx, px, cell) in row.e:
                if px is False or not kx.concrete:
                    continue
                if ky.v >= lines or kx.v >= cols:
                    keys.add((ky.v, kx.v))

    r = True
    for (y, x) in sorted(keys):
        # (a never-written cell and a stored default blank are the same thing there, as on the screen)
        r = bool_and(r, alts_equal(cell_alts(L, a, y, x), cell_alts(L, b, y, x)))
        if r is False:
            return False
    return r


GEOMS_QUICK = [(1, 1), (2, 1), (1, 2), (3, 2), (2, 3)]
GEOMS_THOROUGH = GEOMS_QUICK + [(4, 3), (3, 4), (5, 1), (1, 4)]


def geoms(tier):
    return GEOMS_QUICK if tier == 'quick' else GEOMS_THOROUGH


def remote_opts(cols, lines):
    """GridRun options for a screen far from the small geometries: only a few cells around the corners,
    the middle and the 8-bit boundaries may have been written, and the cursor is at one of those places
    (incl. the pending-wrap column).  Everything else stays as symbolic as on the small screens."""
    xs = sorted({x for x in (0, cols // 2, 255, 256, cols - 1) if 0 <= x < cols})
    ys = sorted({y for y in (0, lines // 2, 255, 256, lines - 1) if 0 <= y < lines})
    cells = sorted({(0, 0), (0, cols - 1), (lines - 1, 0), (lines - 1, cols - 1), (lines // 2, cols // 2)})
    cur = [(x, y) for y in ys for x in xs + [cols]]
    regions = sorted({(t, b) for (t, b) in ((0, lines - 1), (1, lines - 2), (lines // 2, lines - 1), (0, lines // 2),
                                            (1, lines - 1), (0, lines - 2)) if 0 <= t < b <= lines - 1})
    out = {'buffer': ('sparse', cells), 'cursor': ('among', cur)}
    if lines > 6 and regions:
        out['margins'] = ('among', regions)
    return out


REMOTE_QUICK = [(9, 6)]
REMOTE_THOROUGH = [(9, 6), (258, 2), (2, 258), (17, 9)]


def remote_geoms(tier, big=True):
    """big=False: without the 258-sized screens (for the whole-sweep families, whose symbolic counts and
    regions make one path per row there)."""
    gs = REMOTE_QUICK if tier == 'quick' else REMOTE_THOROUGH
    return gs if big else [g for g in gs if max(g) < 100]


def feed_csi(run, ctx, final, ndigits, tag='d'):
    """Feed `CSI <ndigits symbolic decimal digits> final` through Parser<Screen> of a GridRun.
    Returns the parameter the recogniser delivers as (True, 32-bit term) -- 0 when no digit was sent."""
    ds = []
    for i in range(ndigits):
        d = ctx.bvvar('%s%d' % (tag, i), 32)
        ctx.assume(z3.And(z3.UGE(d, 48), z3.ULE(d, 57)))
        ds.append(d)
    chars = [0x9b] + ds + [ord(final)]
    run.calls.append(('@feed', chars))
    try:
        run.ses.feed(Str(tuple(chars)))
        run.mid.append(run.ses.screen)
    except Panic as e:
        run.outcome, run.msg = 'panic', str(e)
    v = z3.BitVecVal(0, 32)
    for d in ds:
        v = v * 10 + (d - 48)
    return (True, Int('u32', v))
