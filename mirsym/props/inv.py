"""The representation invariant: Inv_core is exactly the statement of C09."""
import z3

from ..values import *
from ..engine import bool_and, bool_or, bool_not, to_z3bool, int_eq, _cmp
from ..state import MODES
from .. import stdlib
from .common import scr, cursor_of

_names = None


_BASE = ['black', 'red', 'green', 'brown', 'blue', 'magenta', 'cyan', 'white']


def colour_names(eng):
    """The documented colour names (console_codes(4) / pyte's graphics tables), transcribed here
    independently of graphics.rs so that a misspelt table entry is not taken for documented."""
    global _names
    if _names is None:
        _names = set(_BASE) | {'bright' + n for n in _BASE} | {'default'}
    return _names


def str_is_colour(eng, s):
    """bool / z3 Bool: s is a documented colour name or exactly six hexadecimal digits."""
    if type(s) is SChoice:
        r = True
        for g, alt in s.alts:
            r = bool_and(r, bool_or(bool_not(g), str_is_colour(eng, alt)))
        return r
    if s.concrete():
        p = s.py()
        if p in colour_names(eng):
            return True
        return len(p) == 6 and all(c in '0123456789abcdefABCDEF' for c in p)
    if len(s.c) != 6:
        # a symbolic string of another length could only be valid if it equals a colour name
        r = False
        for nm in colour_names(eng):
            r = bool_or(r, stdlib.str_eq(s, Str.of(nm)))
        return r
    r = True
    for c in s.c:
        if type(c) is int:
            ok = chr(c) in '0123456789abcdefABCDEF'
        else:
            ok = z3.Or(z3.And(z3.UGE(c, 48), z3.ULE(c, 57)), z3.And(z3.UGE(c, 97), z3.ULE(c, 102)),
                       z3.And(z3.UGE(c, 65), z3.ULE(c, 70)))
        r = bool_and(r, ok)
    return r


def cell_colours_ok(eng, L, cell):
    return bool_and(str_is_colour(eng, cell.f[L.char['fg']]), str_is_colour(eng, cell.f[L.char['bg']]))


def inv_core(eng, L, s, parts=False):
    """Well-formedness of a Screen value.  Returns z3 Bool (or list of (label, cond) when parts)."""
    out = []
    cols = bv(scr(L, s, 'columns'))
    lines = bv(scr(L, s, 'lines'))
    x, y, attr, _ = cursor_of(L, s)
    out.append(('cursor row inside the screen', z3.ULT(bv(y), lines)))
    out.append(('cursor column at most `columns`', z3.ULE(bv(x), cols)))
    out.append(('screen has at least one row and column', z3.And(z3.UGE(cols, 1), z3.UGE(lines, 1))))
    mg = scr(L, s, 'margins')
    if 1 in mg.pay:
        mm = mg.pay[1][0]
        t, b = bv(mm.f[L.margins['top']]), bv(mm.f[L.margins['bottom']])
        is_some = (mg.disc == 1) if type(mg.disc) is not int else z3.BoolVal(mg.disc == 1)
        out.append(('margins absent or 0 <= top < bottom <= lines-1',
                    z3.Implies(is_some, z3.And(z3.ULT(t, b), z3.ULT(b, lines)))))
    dr = True
    for (k, p, v) in scr(L, s, 'dirty').e:
        dr = bool_and(dr, bool_or(bool_not(p), z3.ULT(bv(k), lines)))
    out.append(('every dirty index is a row of the screen', to_z3bool(dr)))
    col = cell_colours_ok(eng, L, attr)
    for (ky, py, row) in scr(L, s, 'buffer').e:
        for (kx, px, cell) in row.e:
            vis = bool_and(bool_and(py, px), bool_and(z3.ULT(bv(ky), lines), z3.ULT(bv(kx), cols)))
            col = bool_and(col, bool_or(bool_not(vis), cell_colours_ok(eng, L, cell)))
    out.append(('every fg/bg is a documented colour name or six hex digits', to_z3bool(col)))
    if parts:
        return out
    return z3.And([c for _, c in out])
