"""C03 -- escape-sequence recognition conforms to the documented grammar.

The shipping recogniser (the cfg(not(test)) closure of Parser::new, executed as a coroutine from its
MIR) runs in lock-step with a reference recogniser on the same symbolic characters.  One sequence is
explored from the ground state until both are back in ground (ground-state pruning); a concrete probe
sequence afterwards shows nothing was left over in the recogniser's state."""
import z3

from ..values import *
from ..engine import Engine, bool_and, bool_or, bool_not, to_z3bool
from ..harness import Job, Check, G
from ..state import Session, Recorder, Ev
from ..selftest import rec_json
from .recog import Ref, events_same

PROP = 'C03'
PROBE = '\x9b1;2hZ\x9d2;T\x07'


def valid_scalar(c):
    return z3.And(z3.ULE(c, 0x10FFFF), z3.Or(z3.ULT(c, 0xD800), z3.UGT(c, 0xDFFF)))


class ParserRun:
    def __init__(self, ctx, box, listener='Rec', utf8='sym'):
        self.ctx = ctx
        self.prog, self.L = G['prog'], G['L']
        self.eng = Engine(self.prog, ctx)
        box['eng'] = self.eng
        self.rec = Recorder()
        self.eng.py_listeners['Rec'] = self.rec
        self.ses = Session(self.eng, self.L, listener=listener)
        self.utf8 = ctx.boolvar('utf8') if utf8 == 'sym' else utf8
        self.steps = [['set_use_utf8', self.utf8]]
        self.outcome, self.msg = 'ok', None
        self.ses.step(['set_use_utf8', self.utf8])
        st = self.prog.src.structs['Parser']
        self.i_plain = st.index('taking_plain_text')

    def feed(self, chars):
        """chars: list of python ints / z3 BV32; one feed() call."""
        self.steps.append(['feed_cps', list(chars)])
        try:
            self.ses.feed(Str(tuple(chars)))
        except Panic as e:
            self.outcome, self.msg = 'panic', str(e)

    def impl_ground(self):
        return self.ses.parser.v.f[self.i_plain]

    def jsteps(self, model):
        ev = Ev(model)
        out = []
        for s in self.steps:
            if s[0] == 'set_use_utf8':
                out.append(['set_use_utf8', ev.bool(s[1])])
            else:
                out.append(['feed_cps', [ev.int(c) for c in s[1]]])
        return out

    def scenario(self, model):
        sc = {'listener': 'rec', 'steps': self.jsteps(model)}
        if self.outcome == 'panic':
            return sc, {'ok': False, 'panic': self.msg, 'out': []}
        return sc, {'ok': True, 'out': [rec_json(self.rec, Ev(model))]}

    def describe(self, model):
        st = self.jsteps(model)
        s = []
        for x in st[1:]:
            s.extend(x[1])
        return {'utf8_mode': st[0][1], 'input': ''.join(chr(c) for c in s).encode('unicode_escape').decode(),
                'chunks': [len(x[1]) for x in st[1:]],
                'outcome': self.outcome if self.outcome == 'ok' else 'panic: %s' % self.msg}


def path_seq(ctx, job, box):
    L = job.params['len']
    prefix = job.params.get('prefix', '')
    run = ParserRun(ctx, box)
    ref = Ref(ctx, run.utf8)
    checks = []

    def cmp_events(tag):
        ok, why = events_same(run.rec.events, ref.events)
        return Check(ok, run.scenario, run.describe,
                     label='listener events differ from the grammar %s%s' % (tag, (': ' + why) if why else ''))

    def feed_one(c):
        run.feed([c])
        if run.outcome == 'panic':
            return False
        ref.feed(c)
        return True

    for ch in prefix:
        if not feed_one(ord(ch)):
            return Check(False, run.scenario, run.describe, outcome='panic', label='recogniser panics: %s' % run.msg)
    back = False
    for i in range(L):
        c = ctx.bvvar('c%d' % i, 32)
        ctx.assume(valid_scalar(c))
        if not feed_one(c):
            return Check(False, run.scenario, run.describe, outcome='panic', label='recogniser panics: %s' % run.msg)
        if ref.assumed_away:
            return Check(True, run.scenario, run.describe, label='outside the part of the grammar the statement fixes')
        ig = run.impl_ground()
        if ig is not True and ig is not False:
            ig = ctx.branch(ig)
        if ig != ref.ground:
            return Check(False, run.scenario, run.describe,
                         label='after %d characters of the sequence the recogniser is %s its ground state but the '
                               'grammar says it is %s (a character is swallowed or leaks out as text)'
                               % (len(prefix) + i + 1, 'in' if ig else 'not in', 'in ground' if ref.ground else 'inside a sequence'))
        if ref.ground:
            back = True
            break
    checks.append(cmp_events('(sequence)'))
    if back:
        # nothing must be left over: a concrete probe behaves as from a fresh recogniser
        for ch in PROBE:
            if not feed_one(ord(ch)):
                return Check(False, run.scenario, run.describe, outcome='panic', label='recogniser panics on the probe: %s' % run.msg)
        ig = run.impl_ground()
        checks.append(Check(ig is True, run.scenario, run.describe,
                            label='after a complete sequence plus the probe the recogniser is not in ground state'))
        checks.append(cmp_events('(after the probe CSI 1;2 h Z OSC 2;T BEL: state left over from the previous sequence)'))
    return checks


def jobs(tier):
    js = []
    L = 4 if tier == 'quick' else 5
    js.append(Job('ground/len%d' % L, path_seq, len=L, prop=PROP))
    shaped = [('\x1b[', 3), ('\x9b', 3), ('\x9b1;', 3), ('\x9b?', 3), ('\x1b]', 3), ('\x9d0;', 3), ('\x1b]2;ab', 2),
              ('\x9b' + '9' * 4, 2), ('\x9b1000', 2), ('\x9b0000', 2), ('\x9b' + '9' * 20, 1), ('\x9b' + '1' * 25 + ';', 2), ('\x9b12;34;56;7', 2),
              ('\x9b1$', 2), ('\x1b(', 2), ('\x1b)', 2), ('\x1b%', 2), ('\x1b#', 2), ('\x9b1;2\x07', 2)]
    if tier == 'thorough':
        shaped += [('\x1b[', 4), ('\x9b1;2;', 3), ('\x9d2;', 4), ('\x9b?25', 2), ('\x9b' + '0' * 30 + '7', 1)]
    for pre, n in shaped:
        js.append(Job('shaped/%s+%d' % (pre.encode('unicode_escape').decode(), n), path_seq, len=n, prefix=pre, prop=PROP))
    return js


TIME_BUDGET = {'quick': 900, 'thorough': 3300}

META = {
    'functions': ['Parser::new::{closure#0} (the shipping recogniser coroutine)', 'Parser::feed', 'Parser::is_special_start',
                  'Parser::new', 'ParserListener::escape_dispatch', 'ParserListener::basic_dispatch',
                  'ParserListener::csi_dispatch'],
    'bounds': 'one sequence from the ground state of up to 4 (thorough 5) unconstrained symbolic code points (all scalar '
              'values; classes emerge from the forks), both parser modes, with ground-state pruning and a concrete probe '
              'afterwards; shaped families going deeper: CSI bodies after ESC [ / U+009B / parameters / ? / $, digit runs '
              'of 4, 20 and 25+ digits, OSC bodies after both introducers, ESC ( ) % #',
    'outside': 'sequences longer than the bound that are not in a shaped family; OSC strings whose code is not followed by `;` (OSC R / OSC P return to ground right after the code); the generator crate\'s yield/send semantics are trusted',
}
