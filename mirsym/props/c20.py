"""C20 -- character-set translation (G0/G1, SO/SI, DEC graphics, CP437).

Reference tables are transcribed independently of charset.rs, in a different encoding (identity +
sparse exceptions; Python's cp437 codec for the upper half)."""
import z3

from ..values import *
from ..engine import Engine, bool_and, bool_or, bool_not, to_z3bool
from ..harness import Job, Check, G
from ..state import Session, snapshot
from ..symstate import same
from .. import tables
from .common import *

PROP = 'C20'

# Linux console / pyte "VT100 graphics" map: identity except
GRAF = {0x2b: 0x2192, 0x2c: 0x2190, 0x2d: 0x2191, 0x2e: 0x2193, 0x30: 0x2588, 0x5f: 0x00a0,
        0x60: 0x25c6, 0x61: 0x2592, 0x62: 0x2409, 0x63: 0x240c, 0x64: 0x240d, 0x65: 0x240a, 0x66: 0x00b0,
        0x67: 0x00b1, 0x68: 0x2591, 0x69: 0x240b, 0x6a: 0x2518, 0x6b: 0x2510, 0x6c: 0x250c, 0x6d: 0x2514,
        0x6e: 0x253c, 0x6f: 0x23ba, 0x70: 0x23bb, 0x71: 0x2500, 0x72: 0x23bc, 0x73: 0x23bd, 0x74: 0x251c,
        0x75: 0x2524, 0x76: 0x2534, 0x77: 0x252c, 0x78: 0x2502, 0x79: 0x2264, 0x7a: 0x2265, 0x7b: 0x03c0,
        0x7c: 0x2260, 0x7d: 0x00a3, 0x7e: 0x00b7}
# CP437 glyphs for the C0 range and DEL as the Linux console maps them
CP437_LOW = [0x0000, 0x263a, 0x263b, 0x2665, 0x2666, 0x2663, 0x2660, 0x2022, 0x25d8, 0x25cb, 0x25d9, 0x2642,
             0x2640, 0x266a, 0x266b, 0x263c, 0x25b6, 0x25c0, 0x2195, 0x203c, 0x00b6, 0x00a7, 0x25ac, 0x21a8,
             0x2191, 0x2193, 0x2192, 0x2190, 0x221f, 0x2194, 0x25b2, 0x25bc]
# pyte's VAX42 table: CP437 with eight look-alike substitutions
VAX42_SUBST = {0x21: 0x043b, 0x3f: 0x0435, 0x61: 0x0441, 0x68: 0x0435, 0x6f: 0x043a, 0x72: 0x0442,
               0x74: 0x043b, 0x75: 0x0435}


def ref_tables():
    lat1 = list(range(256))
    graf = [GRAF.get(i, i) for i in range(256)]
    cp = []
    for i in range(256):
        if i < 32:
            cp.append(CP437_LOW[i])
        elif i < 127:
            cp.append(i)
        elif i == 127:
            cp.append(0x2302)
        else:
            cp.append(ord(bytes([i]).decode('cp437')))
    vax = [VAX42_SUBST.get(i, cp[i]) for i in range(256)]
    return {'B': lat1, '0': graf, 'U': cp, 'V': vax}


def z3_table(vals):
    arr = z3.K(z3.BitVecSort(64), z3.BitVecVal(0, 32))
    for k, x in enumerate(vals):
        arr = z3.Store(arr, z3.BitVecVal(k, 64), z3.BitVecVal(x, 32))
    return arr


def path_table(ctx, job, box):
    """MAPS[name][c] == reference[name][c] for a symbolic index c in 0..=255."""
    prog, L = G['prog'], G['L']
    eng = Engine(prog, ctx)
    box['eng'] = eng
    name = job.params['tname']
    maps = deref_all(eng.lazy_value('MAPS'))
    tab = None
    for (k, p, v) in maps.e:
        if deref_all(k).py() == name:
            tab = v
    if tab is None:
        return Check(False, None, lambda m: {'table': name}, label='MAPS has no table %r' % name)
    c = ctx.bvvar('c', 64)
    ctx.assume(z3.ULT(c, 256))
    got = eng.sym_index(tab, Int('usize', c))
    ref = z3.Select(z3_table(ref_tables()[name]), c)

    def describe(model):
        cv = model.eval(c, model_completion=True).as_long()
        return {'table': name, 'index': cv, 'crate_has': tab.f[cv].v, 'published': ref_tables()[name][cv]}
    return Check(bv(got) == ref, None, describe, label='table %r differs from the published table' % name)


def path_defaults(ctx, job, box):
    prog, L = G['prog'], G['L']
    eng = Engine(prog, ctx)
    box['eng'] = eng
    s = eng.call_path('Screen::new', [Int('u32', 3), Int('u32', 2)])
    rt = ref_tables()
    g0 = [x.v for x in scr(L, s, 'g0_charset').f]
    g1 = [x.v for x in scr(L, s, 'g1_charset').f]
    ok = g0 == rt['B'] and g1 == rt['0'] and scr(L, s, 'charset').disc == 0

    def scenario(model):
        return {'cols': 3, 'lines': 2, 'steps': []}, {'ok': True, 'out': [snapshot(eng, L, s, model)]}
    return Check(ok, scenario, lambda m: {'new': [3, 2]}, label='a new screen does not start with G0=Latin-1, G1=DEC graphics, G0 active')


def path_draw(ctx, job, box):
    """draw one symbolic code point through the active set."""
    run = GridRun(ctx, box, 3, 1, cursor=(0, 0), tabstops=0, titles='none', saved_columns='none', margins='none',
                  extra_mode=False, modes={'DECAWM': True, 'DECTCEM': True}, cell_attrs='none', attr='none',
                  charset='sym', buffer='none')
    L, eng = run.L, run.eng
    hi = job.params['range'] == 'high'
    c = ctx.bvvar('c', 32)
    if hi:
        ctx.assume(z3.And(z3.UGE(c, 256), z3.ULE(c, 0x10FFFF), z3.Or(z3.ULT(c, 0xD800), z3.UGT(c, 0xDFFF))))
    else:
        ctx.assume(z3.ULT(c, 256))
        # exhaustive over the 256 code points: the class tables of unicode-width over an array select
        # are slow to decide symbolically, so the code point is enumerated (one path each)
        c = z3.BitVecVal(ctx.concretize(c), 32)
    cval = c.as_long() if z3.is_bv_value(c) else c
    run.calls.append(('draw', (Str((cval,)),)))
    try:
        run.ses.op('draw', Str((cval,)))
    except Panic as e:
        run.outcome, run.msg = 'panic', str(e)
        return run.panic_check('draw panics: %s' % run.msg)
    pre, post = run.pre, run.post
    rt = ref_tables()
    names = ['B', '0', 'U', 'V']
    g0n = g1n = None
    for nm, t in run.ss.tables.items():
        if scr(L, pre, 'g0_charset') is t:
            g0n = nm
        if scr(L, pre, 'g1_charset') is t:
            g1n = nm
    cs = scr(L, pre, 'charset').disc
    active_is_g1 = (cs == 1) if type(cs) is not int else z3.BoolVal(cs == 1)
    if hi:
        exp = c
    else:
        c64 = z3.ZeroExt(32, c)
        exp = z3.If(active_is_g1, z3.Select(z3_table(rt[g1n]), c64), z3.Select(z3_table(rt[g0n]), c64))
    # what ended up in cell (0,0)?  only judged when the translated character is printable (width >= 1)
    alts = cell_alts(L, post, 0, 0)
    px, _, _, _ = cursor_of(L, post)
    drew = bool_not(int_eq(px, 0))
    ok = True
    for cond, cell in alts:
        d = cell.f[L.char['data']]
        if type(d) is Str and len(d.c) == 1:
            same_char = (bv(Int('char', d.c[0])) == exp)
        else:
            same_char = False
        ok = bool_and(ok, bool_or(bool_not(bool_and(cond, drew)), same_char))
    return run.check(ok, 'draw: the cell text is not the code point translated through the active character set '
                         '(G0=%s, G1=%s)' % (g0n, g1n))


def path_api(ctx, job, box):
    """shift_out / shift_in / define_charset from every charset state."""
    op = job.params['op']
    run = GridRun(ctx, box, 2, 1, cursor=(0, 0), tabstops=0, titles='none', saved_columns='none', margins='none',
                  extra_mode=False, cell_attrs='none', attr='none', charset='sym', buffer='none')
    L = run.L
    pre = run.pre
    if op in ('shift_out', 'shift_in'):
        run.call(op)
    else:
        run.call('define_charset', Str.of(job.params['code']), Str.of(job.params['mode']))
    if run.outcome == 'panic':
        return run.panic_check('%s panics: %s' % (op, run.msg))
    post = run.post
    checks = []
    if op in ('shift_out', 'shift_in'):
        want = 1 if op == 'shift_out' else 0
        checks.append(run.check(int_eq(Int('isize', scr(L, post, 'charset').disc), want), '%s does not select %s' % (op, 'G1' if want else 'G0')))
        checks.append(run.check(fields_same(L, pre, post, except_=('charset',)), '%s changed other state' % op))
        return checks
    code, mode = job.params['code'], job.params['mode']
    rt = ref_tables()
    for slot, m in (('g0_charset', '('), ('g1_charset', ')')):
        got = [x.v for x in scr(L, post, slot).f]
        if code in rt and mode == m:
            checks.append(run.check(got == rt[code], 'ESC %s %s did not install the published table %r' % (mode, code, code)))
        else:
            checks.append(run.check(scr(L, post, slot) is scr(L, pre, slot) or got == [x.v for x in scr(L, pre, slot).f],
                                    'define_charset(%r, %r) changed %s' % (code, mode, slot)))
    checks.append(run.check(fields_same(L, pre, post, except_=('g0_charset', 'g1_charset')), 'define_charset changed other state'))
    return checks


def path_parser(ctx, job, box):
    """End to end through the recogniser: [ESC ( | ESC )] code, [SO | SI], one printable ASCII character,
    in 8-bit and in UTF-8 mode."""
    from ..state import Session, Ev
    prog, L = G['prog'], G['L']
    eng = Engine(prog, ctx)
    box['eng'] = eng
    slot = job.params['slot']          # '(' or ')'
    code = job.params['code']
    shift = job.params['shift']        # 0x0e / 0x0f / None
    ses = Session(eng, L, cols=3, lines=1)
    utf8 = ctx.boolvar('utf8')
    c = ctx.bvvar('c', 32)
    ctx.assume(z3.And(z3.UGE(c, 0x20), z3.ULE(c, 0x7e)))
    if job.params.get('shift_inside_csi'):
        # the shift character arrives in the middle of a CSI sequence: it is not one of the controls the
        # grammar executes there, so it must not select G1 in either mode
        # (there it acts as an unknown final byte, which also ends the sequence)
        chars = [0x1b, ord('['), ord('1'), shift, c]
        shift = None
        slot, code = '(', 'B'
    else:
        chars = [0x1b, ord(slot), ord(code)] + ([shift] if shift is not None else []) + [c]
    steps = [['set_use_utf8', utf8], ['feed_cps', chars]]
    outcome, msg = 'ok', None
    try:
        for st in steps:
            ses.step(st)
    except Panic as e:
        outcome, msg = 'panic', str(e)
    post = ses.screen

    def jsteps(model):
        ev = Ev(model)
        return [['set_use_utf8', ev.bool(utf8)], ['feed_cps', [ev.int(x) for x in chars]]]

    def scenario(model):
        sc = {'cols': 3, 'lines': 1, 'steps': jsteps(model)}
        if outcome == 'panic':
            return sc, {'ok': False, 'panic': msg, 'out': []}
        return sc, {'ok': True, 'out': [snapshot(eng, L, post, model)]}

    def describe(model):
        st = jsteps(model)
        return {'utf8_mode': st[0][1], 'input': ''.join(chr(x) for x in st[1][1]).encode('unicode_escape').decode()}

    if outcome == 'panic':
        return Check(False, scenario, describe, outcome='panic', label='panic: %s' % msg)
    rt = ref_tables()
    g0 = rt[code] if (slot == '(' and code in rt) else rt['B']
    g1 = rt[code] if (slot == ')' and code in rt) else rt['0']
    active = g1 if shift == 0x0e else g0
    c64 = z3.ZeroExt(32, c)
    exp8 = z3.Select(z3_table(active), c64)
    exp = z3.If(utf8, c, exp8)          # UTF-8 mode: designators and shifts are ignored
    alts = cell_alts(L, post, 0, 0)
    ok = True
    for cond, cell in alts:
        d = cell.f[L.char['data']]
        same_char = (bv(Int('char', d.c[0])) == exp) if (type(d) is Str and len(d.c) == 1) else False
        ok = bool_and(ok, bool_or(bool_not(cond), same_char))
    return Check(ok, scenario, describe,
                 label='ESC %s %s%s then a character: the drawn cell is not the documented translation '
                       '(8-bit mode) / the character itself (UTF-8 mode)' % (slot, code, ' + SO' if shift == 0x0e else (' + SI' if shift else '')))


def jobs(tier):
    js = [Job('table/' + n, path_table, tname=n, prop=PROP) for n in ('B', '0', 'U', 'V')]
    for sh, nm in ((0x0e, 'SO'), (0x0f, 'SI')):
        js.append(Job('parser/csi-%s' % nm, path_parser, slot='(', code='B', shift=sh, shift_inside_csi=True, prop=PROP))
    for slot in '()':
        for code in 'B0UVx':
            for shift in (None, 0x0e, 0x0f):
                js.append(Job('parser/%s%s/%s' % (slot, code, {None: 'noshift', 0x0e: 'SO', 0x0f: 'SI'}[shift]), path_parser,
                              slot=slot, code=code, shift=shift, prop=PROP))
    js.append(Job('defaults', path_defaults, prop=PROP))
    js.append(Job('draw/low', path_draw, range='low', prop=PROP))
    js.append(Job('draw/high', path_draw, range='high', prop=PROP))
    js.append(Job('api/shift_out', path_api, op='shift_out', prop=PROP))
    js.append(Job('api/shift_in', path_api, op='shift_in', prop=PROP))
    for code in 'B0UVKx':
        for mode in '()x':
            js.append(Job('api/define/%s%s' % (mode, code), path_api, op='define_charset', code=code, mode=mode, prop=PROP))
    return js


META = {
    'functions': ['charset.rs constants (VT100_CHARS, IBMPC_CHARS, VAX42_CHARS, convert_to_char, LAT1_MAP, MAPS)',
                  'draw', 'draw::{closure#0}', 'define_charset', 'shift_out', 'shift_in', 'Screen::new'],
    'bounds': 'all 4x256 table entries (symbolic index, one query per table); draw of one symbolic code point below 256 '
              'and one above 255 (all scalar values) with G0/G1 each any of the four tables and either active; SO/SI and '
              'define_charset for codes B 0 U V K x and modes ( ) x from every charset state; through the recogniser: ESC ( / ESC ) with '
              'codes B 0 U V x, optional SO/SI, then a symbolic printable ASCII character, in 8-bit and UTF-8 mode',
    'outside': 'code points the width tables class as non-printing after translation are not judged by the draw jobs',
}
