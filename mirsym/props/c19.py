"""C19 -- OSC 0/1/2 set title and icon name to exactly the payload (through Parser<Screen>)."""
import z3

from ..values import *
from ..engine import Engine, bool_and, bool_or, bool_not, to_z3bool
from ..harness import Job, Check, G
from ..state import Session, snapshot, Ev
from ..symstate import same, SymScreen
from .. import stdlib
from .common import *
from .c03 import valid_scalar

PROP = 'C19'
ESC, BEL, ST = 0x1b, 7, 0x9c


def path_osc(ctx, job, box):
    prog, L = G['prog'], G['L']
    eng = Engine(prog, ctx)
    box['eng'] = eng
    intro = job.params['intro']        # 'esc' | 'c1'
    term = job.params['term']          # 'bel' | 'st' | 'esc\\'
    npay = job.params['npay']
    shape = job.params.get('shape', 'plain')
    cut = job.params.get('cut')
    ss = SymScreen(ctx, eng, L, 3, 2, cursor='pick', tabstops=0, savepoints=0, extra_mode=False, margins='none',
                   saved_columns='none')
    ses = Session(eng, L, screen=ss.value)
    pre = ss.value
    code = ctx.bvvar('code', 32)
    ctx.assume(valid_scalar(code))
    # codes R / P are the Linux palette sequences (no string follows, see C03); ESC, BEL, ST would
    # not be a code character at all
    for v in (ord('R'), ord('P'), ESC, BEL, ST):
        ctx.assume(code != v)
    pay = []
    for i in range(npay):
        c = ctx.bvvar('p%d' % i, 32)
        ctx.assume(valid_scalar(c))
        for v in (BEL, ST, ESC):
            ctx.assume(c != v)
        pay.append(c)
    payload = list(pay)
    if shape == 'escpair' and npay >= 1:
        # an embedded ESC x pair (x is not a backslash)
        ctx.assume(pay[0] != ord('\\'))
        payload = [ESC] + pay
    first = job.params.get('first')
    pre_chars = []
    if first is not None:
        # an earlier OSC string (any code, its own payload) must leave nothing behind
        code0 = ctx.bvvar('code0', 32)
        ctx.assume(valid_scalar(code0))
        for v in (ord('R'), ord('P'), ESC, BEL, ST):
            ctx.assume(code0 != v)
        qs = []
        for i in range(2):
            q = ctx.bvvar('q%d' % i, 32)
            ctx.assume(valid_scalar(q))
            for v in (BEL, ST, ESC):
                ctx.assume(q != v)
            qs.append(q)
        # (both payloads are symbolic, so the two strings may also carry the same text)
        pre_chars = [0x9d, code0, ord(';')] + qs + [BEL]
        if first == 'osc+ris':
            # a full reset in between clears title and icon name; the second string must still take effect
            pre_chars += [ESC, ord('c')]
    chars = ([ESC, ord(']')] if intro == 'esc' else [0x9d]) + [code]
    with_semicolon = job.params.get('semicolon', True)
    if with_semicolon:
        chars.append(ord(';'))
    chars += payload
    chars += {'bel': [BEL], 'st': [ST], 'esc\\': [ESC, ord('\\')]}[term]
    chars += [ord('Z')]      # a character after the sequence: must be drawn, i.e. the string really ended
    chunks = [chars] if cut is None else [chars[:cut], chars[cut:]]
    outcome, msg = 'ok', None
    if pre_chars:
        try:
            ses.feed(Str(tuple(pre_chars)))
        except Panic as e:
            outcome, msg = 'panic', str(e)
        # the property is judged for the second string, relative to the state the first one left
        pre = ses.screen
        chunks_all = [pre_chars] + chunks
    else:
        chunks_all = chunks
    try:
        for ch in chunks:
            ses.feed(Str(tuple(ch)))
    except Panic as e:
        outcome, msg = 'panic', str(e)
    post = ses.screen

    pre0 = ss.value

    def jsteps(model):
        ev = Ev(model)
        return [['feed_cps', [ev.int(c) for c in ch]] for ch in chunks_all]

    def scenario(model):
        st = snapshot(eng, L, pre0, model)
        sc = {'cols': 3, 'lines': 2, 'state': st, 'steps': jsteps(model)}
        if outcome == 'panic':
            return sc, {'ok': False, 'panic': msg, 'out': []}
        return sc, {'ok': True, 'out': [snapshot(eng, L, post, model)]}

    def describe(model):
        s = []
        for x in jsteps(model):
            s.extend(x[1])
        return {'input': ''.join(chr(c) for c in s).encode('unicode_escape').decode(), 'chunks': [len(c) for c in chunks],
                'outcome': outcome if outcome == 'ok' else 'panic: ' + str(msg)}

    if outcome == 'panic':
        return Check(False, scenario, describe, outcome='panic', label='OSC string panics: %s' % msg)
    expected_payload = Str(tuple(payload))
    is0, is1, is2 = code == ord('0'), code == ord('1'), code == ord('2')
    t_pre, i_pre = scr(L, pre, 'title'), scr(L, pre, 'icon_name')
    t_post, i_post = scr(L, post, 'title'), scr(L, post, 'icon_name')
    title_ok = z3.If(z3.Or(is0, is2), to_z3bool(stdlib.str_eq(t_post, expected_payload)), to_z3bool(same(t_pre, t_post)))
    icon_ok = z3.If(z3.Or(is0, is1), to_z3bool(stdlib.str_eq(i_post, expected_payload)), to_z3bool(same(i_pre, i_post)))
    checks = [Check(title_ok, scenario, describe, label='OSC: title is not exactly the payload / changed by another code'),
              Check(icon_ok, scenario, describe, label='OSC: icon name is not exactly the payload / changed by another code')]
    # the payload is not written to the grid and does not move the cursor: the only visible effect is the
    # trailing Z drawn at the cursor -- compare with drawing Z directly on the pre-state
    ses2 = Session(eng, L, screen=pre)
    ses2.op('draw', Str.of('Z'))
    ref = ses2.screen
    same_grid = grid_same_except(L, ref, post, 3, 2, set())
    rest = fields_same(L, ref, post, except_=('buffer', 'title', 'icon_name'))
    checks.append(Check(bool_and(same_grid, rest), scenario, describe,
                        label='OSC: the string leaked onto the grid, moved the cursor, or swallowed the character after its terminator'))
    return checks


def jobs(tier):
    js = []
    maxp = 2 if tier == 'quick' else 3
    for intro in ('esc', 'c1'):
        for term in ('bel', 'st', 'esc\\'):
            for n in range(0, maxp + 1):
                js.append(Job('%s/%s/pay%d' % (intro, term.replace('\\', 'bs'), n), path_osc, intro=intro, term=term, npay=n, prop=PROP))
            js.append(Job('%s/%s/escpair' % (intro, term.replace('\\', 'bs')), path_osc, intro=intro, term=term, npay=2,
                          shape='escpair', prop=PROP))
        js.append(Job('%s/bel/nosemicolon' % intro, path_osc, intro=intro, term='bel', npay=0, semicolon=False, prop=PROP))
    # two OSC strings in a row: nothing of the first may leak into the second
    for intro in ('esc', 'c1'):
        js.append(Job('pair/%s' % intro, path_osc, intro=intro, term='bel', npay=2, first='osc', prop=PROP))
    js.append(Job('pair+ris/esc', path_osc, intro='esc', term='bel', npay=2, first='osc+ris', prop=PROP))
    # arbitrary chunking of one representative
    for cut in range(1, 8):
        js.append(Job('cut%d' % cut, path_osc, intro='esc', term='esc\\', npay=2, cut=cut, prop=PROP))
    return js


META = {
    'functions': ['Parser::new::{closure#0} (OSC branch)', 'Parser::feed', 'set_title', 'set_icon_name', 'draw'],
    'bounds': 'both introducers x a symbolic code character (any scalar except R, P) x `;` x payload of 0..2 (thorough 3) '
              'unconstrained symbolic characters (anything but BEL, ESC, U+009C) or an embedded ESC x pair x each of the '
              'three terminators, followed by one more character; every 2-way cut of one representative; from symbolic '
              'screen states (title/icon/grid/cursor symbolic) on 3x2',
    'outside': 'payloads longer than 3; more than two strings in a row (two strings with symbolic codes and payloads, with and '
               'without a full reset between them, are covered); OSC codes R/P (Linux palette sequences without a string, covered by C03) and strings without `;` after the code '
               'other than the empty one',
}
