"""C17 -- the dirty set covers every row whose appearance changed.

For every operation of the sweep, from a symbolic state whose dirty set has just been cleared by the
embedder: every row whose observable cells differ between pre and post is in dirty'; screen-wide
operations mark every row; dirty' contains only rows of the current screen."""
import z3

from ..values import *
from ..engine import bool_and, bool_or, bool_not, to_z3bool
from ..harness import Job, Check, G
from ..state import MODES
from .common import *
from . import sweep

PROP = 'C17'

ALL_ROWS_OPS = {'reset', 'alignment_display'}


def path_op(ctx, job, box):
    cols, lines = job.params['geom']
    label, op, mk = job.params['opspec']
    opts = {'cursor': 'pick'}
    if job.params.get('remote'):
        opts = dict(remote_opts(cols, lines), titles='none', extra_mode=False)
    run = GridRun(ctx, box, cols, lines, tabstops=1, dirty='none',
                  savepoints=job.params.get('savepoints', 0), sp_charsets='fixed', **opts)
    L = run.L
    args = mk(ctx)
    run.call(op, *args)
    if run.outcome == 'panic':
        return run.panic_check('%s panics: %s' % (label, run.msg))
    pre, post = run.pre, run.post
    pc = ctx.concretize(bv(scr(L, post, 'columns')))
    pl = ctx.concretize(bv(scr(L, post, 'lines')))
    checks = []
    covered = True
    for y in range(pl):
        same_row = True
        for x in range(pc):
            same_row = bool_and(same_row, alts_equal(cell_alts(L, pre, y, x) if (y < lines and x < cols) else
                                                     [(True, default_cell(L, pre))], cell_alts(L, post, y, x)))
        covered = bool_and(covered, bool_or(same_row, dirty_has(L, post, y)))
    checks.append(run.check(covered, '%s changed the appearance of a row that is not in the dirty set' % label))
    # screen-wide operations mark every row
    all_rows = True
    for y in range(pl):
        all_rows = bool_and(all_rows, dirty_has(L, post, y))
    wide = None
    if op in ALL_ROWS_OPS:
        wide = True
    elif op in ('set_mode', 'reset_mode'):
        ms, private = args
        conds = []
        for m in ms.f:
            for num in (MODES['DECSCNM'], MODES['DECCOLM']):
                if num == MODES['DECCOLM'] and op == 'reset_mode':
                    continue
                c_np = bool_and(bool_not(private), int_eq(m, num))
                c_p = bool_and(private, int_eq(m, num >> 5))
                conds.append(bool_or(c_np, c_p))
        w = False
        for c in conds:
            w = bool_or(w, c)
        wide = w
    elif op == 'resize':
        changed = bool_or(bool_not(int_eq(scr(L, post, 'columns'), cols)), bool_not(int_eq(scr(L, post, 'lines'), lines)))
        wide = changed
    elif op in ('index', 'linefeed', 'reverse_index'):
        ss = run.ss
        has_m = to_z3bool(ss.m_some)
        top = z3.If(has_m, ss.m_top, z3.BitVecVal(0, 32))
        bot = z3.If(has_m, ss.m_bot, z3.BitVecVal(lines - 1, 32))
        CY = z3.BitVecVal(ss.cy, 32)
        wide = (CY == top) if op == 'reverse_index' else (CY == bot)
    if wide is not None and wide is not False:
        checks.append(run.check(bool_or(bool_not(wide), all_rows),
                                '%s is a screen-wide change but does not mark every row dirty' % label))
    inside = True
    for (k, p, v) in scr(L, post, 'dirty').e:
        inside = bool_and(inside, bool_or(bool_not(p), z3.ULT(bv(k), pl)))
    checks.append(run.check(inside, 'after %s the dirty set contains an index that is not a row of the screen' % label))
    return checks


def path_seq(ctx, job, box):
    """resize, then (after the embedder cleared the set) one more operation: the set stays inside the screen."""
    cols, lines = job.params['geom']
    second = job.params['second']
    run = GridRun(ctx, box, cols, lines, cursor='pick', tabstops=0, dirty='none', titles='none', saved_columns='none',
                  extra_mode=False)
    L = run.L
    from ..symstate import sym_opt_u32
    run.call('resize', sym_opt_u32(ctx, 'rl', 1, lines + 1), sym_opt_u32(ctx, 'rc', 1, cols + 1))
    if run.outcome == 'panic':
        return run.panic_check('resize panics: %s' % run.msg)
    # the embedder repaints and clears the set
    mid = run.ses.screen
    run.ses.screen = mid.with_field(L.screen['dirty'], MapV((), 'set'))
    run.calls.append(('@raw', ['state', {'dirty': []}]))
    if second == 'draw':
        run.call('draw', Str.of('Z'))
    else:
        run.call(second, NONE, NONE) if second == 'erase_in_line' else run.call(second)
    if run.outcome == 'panic':
        return run.panic_check('%s after resize panics: %s' % (second, run.msg))
    post = run.post
    pl = bv(scr(L, post, 'lines'))
    inside = True
    for (k, p, v) in scr(L, post, 'dirty').e:
        inside = bool_and(inside, bool_or(bool_not(p), z3.ULT(bv(k), pl)))
    return run.check(inside, 'resize then %s: the dirty set names a row that is not on the screen' % second)


def jobs(tier):
    gs = [(2, 1), (2, 2)] if tier == 'quick' else [(1, 1), (2, 1), (2, 2), (3, 2), (2, 3)]
    js = []
    for second in ('draw', 'erase_in_line', 'linefeed'):
        js.append(Job('seq/resize>%s/1x3' % second, path_seq, geom=(1, 3), second=second, prop=PROP))
    # a region with the cursor outside it needs three rows
    for spec in sweep.ops(tier, 1, 3):
        if spec[1] in ('draw', 'index', 'linefeed', 'reverse_index') or spec[0] in ('cursor_down', 'cursor_up'):
            js.append(Job('%s/1x3' % spec[0], path_op, opspec=spec, geom=(1, 3), prop=PROP))
    for g in gs:
        for spec in sweep.ops(tier, g[0], g[1]):
            if spec[1] == 'display':
                continue
            js.append(Job('%s/%dx%d' % (spec[0], g[0], g[1]), path_op, opspec=spec, geom=g, prop=PROP))
    for g in remote_geoms(tier, big=False):
        for spec in sweep.remote_ops(g[0], g[1]):
            if spec[1] == 'resize':
                continue
            js.append(Job('remote/%s/%dx%d' % (spec[0], g[0], g[1]), path_op, opspec=spec, geom=g, remote=True, prop=PROP))
    for g in gs[:2]:
        for spec in sweep.ops(tier, g[0], g[1]):
            if spec[1] in ('restore_cursor', 'resize'):
                js.append(Job('%s+savepoint/%dx%d' % (spec[0], g[0], g[1]), path_op, opspec=spec, geom=g,
                              savepoints=1, prop=PROP))
    return js


META = {
    'functions': ['all 37 ParserListener methods of Screen', 'Screen::resize'],
    'bounds': 'geometries quick {2x1,2x2}, thorough {1x1,2x1,2x2,3x2,2x3}; dirty set empty in the pre-state, everything '
              'else symbolic as in C09; one operation per path (a longer history between two clears is the union of '
              'its steps, each step is covered from every state)',
    'outside': 'larger geometries other than the sparsely written remote screens (quick 9x6; thorough + 17x9) on which the geometry-dependent operations are repeated; through-the-parser spelling is covered by C03 (the dispatcher calls these methods)',
}
