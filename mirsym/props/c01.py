"""C01 -- no input can crash, hang or wedge the emulator.

(a) every listener method, resize and display from an arbitrary symbolic well-formed state with
    arguments absent or 0..=9999: no panic edge (overflow, index, unwrap/expect, explicit panic, mutex
    re-lock) is feasible, no path exceeds its step budget, and the state afterwards is well-formed again
    (so the next call starts in a covered state: induction over histories of any length);
(b) the real recogniser + dispatchers + Screen on symbolic character strings, both parser modes;
(c) the real byte parser + recogniser + Screen on symbolic byte strings in every chunking.
Afterwards display() and a further feed are executed on every path."""
import z3

from ..values import *
from ..engine import Engine, bool_and, bool_or, bool_not, to_z3bool
from ..harness import Job, Check, G
from ..state import Session, snapshot, Ev
from .common import *
from .inv import inv_core
from . import sweep, c09
from .c03 import valid_scalar
from .c11 import compositions

PROP = 'C01'
# narrow, wide (BMP, astral), combining (BMP, astral), zero-width, private use, replacement, last scalar, BOM, noncharacter
HIGH_REPS = [0x0416 + 0x800, 0x30B3, 0x1F600, 0x20D0, 0x1D167, 0x200B, 0xE000, 0xFFFD, 0x10FFFF, 0xFEFF, 0xFFFF, 0x3000, 0xFF21]


def guarded(fn):
    """Budget exhaustion is a finding for C01 (possible unbounded loop), not an inconclusive run."""
    def wrapped(ctx, job, box):
        try:
            return fn(ctx, job, box)
        except Unmodelled as e:
            if 'nfc of symbolic' in str(e):
                # normalising a cell text made of symbolic characters is outside the engine's model;
                # nfc() cannot panic, the region is excluded and stated in the bounds
                return Check(True, None, lambda m: {'job': job.name}, label='excluded: NFC of symbolic text')
            raise
        except Budget as e:
            return Check(False, None, lambda m: {'job': job.name, 'detail': str(e)}, outcome='budget',
                         label='step budget exceeded: possible unbounded loop (%s)' % e)
    return wrapped


@guarded
def path_op(ctx, job, box):
    cols, lines = job.params['geom']
    label, op, mk = job.params['opspec']
    if job.params.get('wide'):
        run = GridRun(ctx, box, cols, lines, cursor=(3, 0), tabstops=1, sp_charsets='fixed', buffer='none')
    elif job.params.get('remote'):
        run = GridRun(ctx, box, cols, lines, tabstops=1, sp_charsets='fixed', dirty='none', titles='none',
                      extra_mode=False, **remote_opts(cols, lines))
    else:
        run = GridRun(ctx, box, cols, lines, cursor='pick', tabstops=1, savepoints=job.params.get('savepoints', 0),
                      sp_charsets='fixed')
    run.eng.step_budget = 400_000
    L = run.L
    run.call(op, *mk(ctx))
    if run.outcome == 'panic':
        return run.panic_check('%s panics: %s' % (label, run.msg))
    if job.params.get('then'):
        # a second operation on the state the first one left (the DECCOLM round trip on a wide screen)
        label2, op2, mk2 = job.params['then']
        run.call(op2, *mk2(ctx))
        if run.outcome == 'panic':
            return run.panic_check('%s after %s panics: %s' % (label2, label, run.msg))
        label = label + ' > ' + label2
    checks = [run.check(inv_core(run.eng, L, run.post), 'after %s the state is not well-formed, so later calls are not covered' % label)]
    # afterwards display() still returns (not repeated on the remote screens: display() forks on every cell that
    # may be present, and C10 runs it on remote screens separately)
    if op != 'display' and not job.params.get('remote'):
        run.call('display')
        if run.outcome == 'panic':
            return run.panic_check('display() after %s panics: %s' % (label, run.msg))
    return checks


class StreamRun:
    def __init__(self, ctx, box, cols, lines):
        self.ctx = ctx
        self.prog, self.L = G['prog'], G['L']
        self.eng = Engine(self.prog, ctx, step_budget=600_000)
        box['eng'] = self.eng
        self.ses = Session(self.eng, self.L, cols=cols, lines=lines)
        self.cols, self.lines = cols, lines
        self.steps = []
        self.outcome, self.msg = 'ok', None

    def do(self, step):
        self.steps.append(step)
        try:
            self.ses.step(step)
        except Panic as e:
            self.outcome, self.msg = 'panic', str(e)
        return self.outcome == 'ok'

    def jsteps(self, model):
        ev = Ev(model)
        out = []
        for s in self.steps:
            if s[0] in ('feed_cps', 'feed_bytes'):
                out.append([s[0], [ev.int(c) for c in s[1]]])
            elif s[0] == 'set_use_utf8':
                out.append([s[0], ev.bool(s[1])])
            else:
                out.append(s)
        return out

    def scenario(self, model):
        sc = {'cols': self.cols, 'lines': self.lines, 'steps': self.jsteps(model)}
        if self.outcome == 'panic':
            return sc, {'ok': False, 'panic': self.msg, 'out': []}
        ev = Ev(model)
        outs = []
        for o in self.ses.out:
            outs.append([ev.str(x) for x in deref_all(o).items])
        outs.append(snapshot(self.eng, self.L, self.ses.screen, model))
        return sc, {'ok': True, 'out': outs}

    def describe(self, model):
        d = []
        for s in self.jsteps(model):
            if s[0] == 'feed_cps':
                d.append('feed(%s)' % ''.join(chr(c) for c in s[1]).encode('unicode_escape').decode())
            else:
                d.append(s)
        return {'geom': [self.cols, self.lines], 'steps': d,
                'outcome': self.outcome if self.outcome == 'ok' else 'panic: %s' % self.msg}

    def panic_check(self):
        return Check(False, self.scenario, self.describe, outcome='panic', label='panic: %s' % self.msg)


@guarded
def path_chars(ctx, job, box):
    n = job.params['len']
    prefix = job.params.get('prefix', '')
    cut = job.params.get('cut')
    run = StreamRun(ctx, box, *job.params.get('geom', (2, 2)))
    utf8 = ctx.boolvar('utf8')
    if not run.do(['set_use_utf8', utf8]):
        return run.panic_check()
    chars = [ord(c) for c in prefix]
    for i in range(n):
        c = ctx.bvvar('c%d' % i, 32)
        # every code point below U+0800; above it one representative per class the screen distinguishes
        # (the class tables of unicode-width/-normalization over the whole range make every query slow)
        ctx.assume(z3.Or(z3.ULT(c, 0x800), z3.Or([c == r for r in HIGH_REPS])))
        chars.append(c)
    chunks = [chars] if cut is None else [chars[:cut], chars[cut:]]
    for ch in chunks:
        if not run.do(['feed_cps', ch]):
            return run.panic_check()
    # afterwards display() still returns and further input is still processed
    for st in (['display'], ['feed_cps', [ord('x'), 0x1b, ord('['), ord('H'), 10]], ['display']):
        if not run.do(st):
            return run.panic_check()
    return Check(inv_core(run.eng, run.L, run.ses.screen), run.scenario, run.describe,
                 label='state after the stream is not well-formed')


@guarded
def path_bytes(ctx, job, box):
    comp = job.params['comp']
    plan = job.params.get('plan')
    run = StreamRun(ctx, box, 2, 2)
    if not run.do(['byte_parser']):
        return run.panic_check()
    nb = 0
    steps = plan if plan else [('b', k) for k in comp]
    for kind, arg in steps:
        if kind == 'm':
            if not run.do(['select_other_charset', arg]):
                return run.panic_check()
            continue
        bs = []
        for _ in range(arg):
            bs.append(Int('u8', ctx.bvvar('b%d' % nb, 8)))
            nb += 1
        if not run.do(['feed_bytes', bs]):
            return run.panic_check()
    for st in (['display'], ['feed_bytes', [Int('u8', 0x41), Int('u8', 0xC3)]], ['display']):
        if not run.do(st):
            return run.panic_check()
    return Check(inv_core(run.eng, run.L, run.ses.screen), run.scenario, run.describe,
                 label='state after the byte stream is not well-formed')


def jobs(tier):
    js = []
    gs = [(2, 1), (2, 2), (1, 3)] if tier == 'quick' else [(1, 1), (2, 1), (1, 2), (2, 2), (3, 2), (1, 3), (2, 3)]
    for g in gs:
        for spec in sweep.ops(tier, g[0], g[1]):
            js.append(Job('op/%s/%dx%d' % (spec[0], g[0], g[1]), path_op, opspec=spec, geom=g, prop=PROP))
    for spec in sweep.ops(tier, 2, 2):
        if spec[1] in ('restore_cursor', 'resize'):
            js.append(Job('op/%s+savepoint/2x2' % spec[0], path_op, opspec=spec, geom=(2, 2), savepoints=1, prop=PROP))
    # a 132-column screen (reachable by resize, Screen::new, or SM ?3 followed by RIS) for the width-switching modes
    for spec in sweep.ops(tier, 132, 1):
        if 'DECCOLM' in spec[0] or spec[1] in ('reset', 'tab'):
            js.append(Job('op/%s/132x1' % spec[0], path_op, opspec=spec, geom=(132, 1), wide=True, prop=PROP))
    # never-written screens wider than 132 columns and wider than a byte can count: SM ?3, RM ?3 and the round trip
    for w in ((133, 256) if tier == 'quick' else (131, 133, 255, 256, 257, 300, 512)):
        specs = {sp[0]: sp for sp in sweep.ops('quick', w, 1)}
        sm, rm = specs['set_mode/?DECCOLM'], specs['reset_mode/?DECCOLM']
        js.append(Job('op/%s/%dx1' % (sm[0], w), path_op, opspec=sm, geom=(w, 1), wide=True, prop=PROP))
        js.append(Job('op/%s/%dx1' % (rm[0], w), path_op, opspec=rm, geom=(w, 1), wide=True, prop=PROP))
        js.append(Job('op/DECCOLM-roundtrip/%dx1' % w, path_op, opspec=sm, then=rm, geom=(w, 1), wide=True, prop=PROP))
    # the geometry-dependent operations far from the small screens (sparsely written 9x6; thorough + 17x9)
    for g in remote_geoms(tier, big=False):
        for spec in sweep.remote_ops(g[0], g[1]):
            if spec[1] == 'resize':
                continue
            js.append(Job('op/remote/%s/%dx%d' % (spec[0], g[0], g[1]), path_op, opspec=spec, geom=g, remote=True, prop=PROP))
    n = 3 if tier == 'quick' else 4
    js.append(Job('chars/len%d' % n, path_chars, len=n, prop=PROP))
    shaped = [('\x1b[', 2), ('\x9b', 2), ('\x9b1;', 2), ('\x9b?', 2), ('\x1b]', 2), ('\x9d0;', 2), ('\x9b' + '9' * 22, 1),
              ('\x1b(', 1), ('\x1b%', 1), ('\x1b#', 1), ('\x9b;', 2), ('コ', 2), ('é̈', 1)]
    if tier == 'thorough':
        shaped += [('\x1b[', 3), ('\x9b1;2', 2), ('\x9d2;a', 2)]
    for pre, k in shaped:
        js.append(Job('chars/%s+%d' % (pre.encode('unicode_escape').decode(), k), path_chars, len=k, prefix=pre, prop=PROP))
    for cut in (1, 2):
        js.append(Job('chars/len2/cut%d/1x1' % cut, path_chars, len=2, cut=cut, geom=(1, 1), prop=PROP))
    nb = 2 if tier == 'quick' else 3
    for m in range(1, nb + 1):
        for comp in compositions(m):
            js.append(Job('bytes/' + '+'.join(map(str, comp)), path_bytes, comp=comp, prop=PROP))
    js.append(Job('bytes/switch', path_bytes, comp=None, plan=[('b', 1), ('m', '@'), ('b', 1), ('m', 'G'), ('b', 1)], prop=PROP))
    js.append(Job('bytes/empty', path_bytes, comp=None, plan=[('b', 1), ('b', 0), ('b', 1), ('b', 0)], prop=PROP))
    js.append(Job('bytes/empty8', path_bytes, comp=None, plan=[('m', '@'), ('b', 0), ('b', 1), ('m', 'G'), ('b', 0), ('b', 1)], prop=PROP))
    return js


TIME_BUDGET = {'quick': 1200, 'thorough': 3400}

META = {
    'functions': ['ByteParser::feed', 'ByteParser::select_other_charset', 'Parser::feed', 'Parser::new::{closure#0}',
                  'ParserListener::{escape,basic,csi}_dispatch', 'all 37 ParserListener methods of Screen', 'Screen::resize',
                  'display', 'Screen::new'],
    'bounds': '(a) every operation of the sweep from symbolic well-formed states on {2x1,2x2,1x3} (thorough + {1x1,1x2,3x2,2x3}), '
              'numeric arguments absent or 0..=9999, resize targets 1..=size+2, each followed by display(); the DECCOLM '
              'switches and their round trip on never-written screens of 132, 133, 256 (thorough 131..512) columns; the '
              'geometry-dependent operations on a sparsely written 9x6 (thorough + 17x9) screen; (b) strings of '
              '3 (thorough 4) unconstrained symbolic code points and shaped families (CSI/OSC bodies, 22-digit parameter, '
              'designators, wide and combining prefixes) through Parser<Screen> on a fresh 2x2 (and 1x1) screen, both modes, '
              'followed by display(), more input and display(); (c) 1..2 (thorough 3) symbolic bytes in every chunking and '
              'with mode switches through ByteParser<Screen>; step budget 4-6e5 MIR statements per path',
    'outside': 'allocation failure, coroutine stack exhaustion, println! on a closed stdout, internals of '
               'std/hashbrown/generator/encoding_rs; streams beyond the bounds that are not decomposable into covered steps; '
               'geometries above those listed for grid operations (scalar kernels are parametric in C05/C06/C18/C14)',
}
