"""C09 -- screen state is always well-formed.

Inductive: Inv_core (= the statement) is established by Screen::new for symbolic sizes and preserved
by every operation of the sweep (incl. resize to symbolic sizes and both DECCOLM directions) from an
arbitrary symbolic state satisfying it; display() returns exactly `lines` strings."""
import z3

from ..values import *
from ..engine import Engine, bool_and, bool_or, bool_not, to_z3bool
from ..harness import Job, Check, G
from ..state import Session, snapshot
from .common import *
from .inv import inv_core
from . import sweep

PROP = 'C09'


def path_new(ctx, job, box):
    prog, L = G['prog'], G['L']
    eng = Engine(prog, ctx)
    box['eng'] = eng
    c = ctx.bvvar('columns', 32)
    l = ctx.bvvar('lines', 32)
    ctx.assume(z3.And(z3.UGE(c, 1), z3.ULE(c, 140), z3.UGE(l, 1), z3.ULE(l, job.params['maxl'])))
    outcome, msg = 'ok', None
    try:
        s = eng.call_path('Screen::new', [Int('u32', c), Int('u32', l)])
    except Panic as e:
        outcome, msg = 'panic', str(e)
        s = None

    def scenario(model):
        cc = model.eval(c, model_completion=True).as_long()
        ll = model.eval(l, model_completion=True).as_long()
        sc = {'cols': cc, 'lines': ll, 'steps': []}
        if outcome == 'panic':
            return sc, {'ok': False, 'panic': msg, 'out': []}
        return sc, {'ok': True, 'out': [snapshot(eng, L, s, model)]}

    def describe(model):
        return {'new': [model.eval(c, model_completion=True).as_long(), model.eval(l, model_completion=True).as_long()],
                'outcome': outcome}

    if outcome == 'panic':
        return Check(False, scenario, describe, outcome='panic', label='Screen::new panics: %s' % msg)
    checks = []
    for label, cond in inv_core(eng, L, s, parts=True):
        checks.append(Check(cond, scenario, describe, label='after Screen::new: ' + label + ' is violated'))
    return checks


def path_op(ctx, job, box):
    cols, lines = job.params['geom']
    label, op, mk = job.params['opspec']
    opts = dict(cursor='pick', tabstops=1, savepoints=job.params.get('savepoints', 0), sp_charsets='fixed')
    if job.params.get('remote'):
        opts.update(remote_opts(cols, lines))
        opts.update(dirty='none', titles='none', extra_mode=False)
    run = GridRun(ctx, box, cols, lines, **opts)
    L = run.L
    args = mk(ctx)
    r = run.call(op, *args)
    if run.outcome == 'panic':
        return run.panic_check('%s panics: %s' % (label, run.msg))
    checks = []
    for lab, cond in inv_core(run.eng, L, run.post, parts=True):
        checks.append(run.check(cond, 'after %s: %s is violated' % (label, lab)))
    if op == 'display':
        n = len(run.displays[-1].items)
        pl = scr(L, run.post, 'lines')
        checks.append(run.check(int_eq(pl, n), 'display() does not return exactly `lines` strings'))
    return checks


def jobs(tier):
    js = [Job('new/parametric', path_new, maxl=(12 if tier == 'quick' else 40), prop=PROP)]
    gs = [(2, 1), (3, 2), (1, 3)] if tier == 'quick' else [(1, 1), (2, 1), (1, 2), (3, 2), (2, 3), (1, 4)]
    for g in gs:
        for spec in sweep.ops(tier, g[0], g[1]):
            js.append(Job('%s/%dx%d' % (spec[0], g[0], g[1]), path_op, opspec=spec, geom=g, prop=PROP))
    # far from the small geometries: a sparsely written larger screen, cursor in the corners / middle / pending-wrap
    for g in remote_geoms(tier, big=False):
        for spec in sweep.remote_ops(g[0], g[1]):
            if spec[1] == 'resize':
                continue    # (remote resizes: C16's remote family, with sizes picked around the boundaries)
            js.append(Job('remote/%s/%dx%d' % (spec[0], g[0], g[1]), path_op, opspec=spec, geom=g, remote=True, prop=PROP))
    # restore_cursor and resize with a symbolic saved cursor on the stack
    for g in gs[:2]:
        for spec in sweep.ops(tier, g[0], g[1]):
            if spec[1] in ('restore_cursor', 'resize'):
                js.append(Job('%s+savepoint/%dx%d' % (spec[0], g[0], g[1]), path_op, opspec=spec, geom=g,
                              savepoints=1, prop=PROP))
    return js


META = {
    'functions': ['Screen::new', 'Screen::reset', 'Screen::resize', 'display', 'all 37 ParserListener methods of Screen'],
    'bounds': 'Screen::new for symbolic columns 1..=140, lines 1..=12 (thorough 40); every operation of the sweep from '
              'symbolic well-formed states on geometries quick {2x1,3x2,1x3}, thorough {1x1,2x1,1x2,3x2,2x3,1x4}; numeric '
              'arguments absent or 0..=9999; resize targets 1..=max+2 in both dimensions; DECCOLM executed for real',
    'outside': 'larger geometries for grid operations other than the sparsely written remote screens (quick 9x6; thorough '
               '+ 17x9) (scalar operations are covered parametrically by C05/C06/C18); '
               'byte-level input (C01/C11)',
}
