"""C10 -- display() is a faithful and side-effect-free rendering of the grid.

(i)   display() output == reference rendering (skip the placeholder after a wide character, absent =
      blank, orphaned placeholders contribute their empty text), from grids whose cells are narrow,
      wide, placeholder or base+combining in every arrangement;
(ii)  display() changes nothing observable;
(iii) representation independence: for every operation O of the sweep and every pair of states that
      differ only in which blank cells/rows are materialised (what display() does, for an arbitrary
      symbolic subset), O yields observably equal results.  (ii)+(iii) give by induction that
      interposing display() anywhere in any history changes nothing."""
import z3

from ..values import *
from ..engine import bool_and, bool_or, bool_not, to_z3bool
from ..harness import Job, Check, G
from ..state import Session, snapshot, Ev
from ..symstate import same
from .. import stdlib, tables
from .common import *
from . import sweep

PROP = 'C10'

KINDS = ['narrow', 'wide', 'placeholder', 'combining', 'vs16']


def kind_text(kind, marker):
    # vs16: a one-column symbol followed by the zero-width variation selector 16 (an "emoji presentation"
    # sequence whose *string* width differs from the width of its first character)
    return {'narrow': marker, 'wide': 'コ', 'placeholder': '', 'combining': marker + '̈', 'vs16': '☺️'}[kind]


def path_render(ctx, job, box):
    """(i) + (ii) on grids with every arrangement of cell kinds."""
    cols, lines = job.params['geom']
    opts = {'cursor': 'pick' if job.params.get('pick', False) else 'sym'}
    if job.params.get('remote'):
        # a larger screen of which four cells (two adjacent pairs: a wide character next to something) may be written
        cells = [(0, 0), (0, 1), (lines - 1, cols - 2), (lines - 1, cols - 1)]
        opts = {'cursor': (0, 0), 'buffer': ('sparse', cells)}
    run = GridRun(ctx, box, cols, lines, tabstops=0,
                  titles='none', saved_columns='none', extra_mode=False, margins='none', cell_attrs='none',
                  attr='none', modes={'DECSCNM': 'sym', 'DECAWM': True, 'DECTCEM': True}, **opts)
    L = run.L
    # replace every cell text by a symbolic choice of kind
    pre = run.pre
    buf = scr(L, pre, 'buffer')
    rows = []
    for (ky, py, row) in buf.e:
        cells = []
        for (kx, px, cell) in row.e:
            sel = ctx.bvvar('kind_%d_%d' % (ky.v, kx.v), 3)
            ctx.assume(z3.ULT(sel, len(KINDS)))
            mk_ = run.ss.markers[(ky.v, kx.v)]
            data = SChoice(tuple((sel == i, Str.of(kind_text(k, mk_))) for i, k in enumerate(KINDS)))
            cells.append((kx, px, cell.with_field(L.char['data'], data)))
        rows.append((ky, py, MapV(tuple(cells), 'map')))
    pre = pre.with_field(L.screen['buffer'], MapV(tuple(rows), 'map'))
    run.pre = pre
    run.ses.screen = pre
    run.call('display')
    if run.outcome == 'panic':
        return run.panic_check('display() panics: %s' % run.msg)
    out = run.displays[-1]
    post = run.post
    # reference rendering, evaluated on this path (cell kinds are decided by the path condition)
    ok = len(out.items) == lines
    expect = []
    for y in range(lines):
        s = ''
        skip = False
        for x in range(cols):
            if skip:
                skip = False
                continue
            alts = cell_alts(L, pre, y, x)
            i = ctx.choose([c for c, _ in alts])
            d = alts[i][1].f[L.char['data']]
            txt = stdlib.as_str(run.eng, d).py()
            s += txt
            skip = len(txt) > 0 and tables.width(ord(txt[0])) == 2
        expect.append(s)
    got = [stdlib.as_str(run.eng, x).py() for x in out.items]
    checks = [run.check(got == expect, 'display() output %r differs from the reference rendering %r' % (got, expect))]
    same_grid = grid_same_except(L, pre, post, cols, lines, set())
    rest = fields_same(L, pre, post, except_=('buffer',))
    checks.append(run.check(bool_and(bool_and(same_grid, rest), hidden_same(L, pre, post, cols, lines)),
                            'display() changed the observable state'))
    return checks


def merge_str(p, a, b):
    """SChoice: a if p else b."""
    alts = []
    for g, s in (a.alts if type(a) is SChoice else ((True, a),)):
        alts.append((bool_and(p, g), s))
    for g, s in (b.alts if type(b) is SChoice else ((True, b),)):
        alts.append((bool_and(bool_not(p), g), s))
    return SChoice(tuple((to_z3bool(g), s) for g, s in alts if g is not False))


def merge_cell(L, p, cell, dflt):
    f = list(cell.f)
    for n, i in L.char.items():
        a, b = cell.f[i], dflt.f[i]
        if n in ('data', 'fg', 'bg'):
            f[i] = merge_str(p, a, b)
        else:
            f[i] = z3.If(to_z3bool(p), to_z3bool(a), to_z3bool(b))
    return Agg('CharOpts', f)


def materialise(ctx, L, s):
    """S2: the same observable state with an arbitrary symbolic subset of absent rows/cells
    materialised as default blanks."""
    dflt = default_cell(L, s)
    buf = scr(L, s, 'buffer')
    rows = []
    for (ky, py, row) in buf.e:
        mrow = ctx.boolvar('mat_row_%d' % ky.v)
        cells = []
        anyp = False
        for (kx, px, cell) in row.e:
            m = ctx.boolvar('mat_%d_%d' % (ky.v, kx.v))
            was = bool_and(py, px)                 # visible in S1
            now = bool_or(was, m)                  # present in S2
            cells.append((kx, now, merge_cell(L, was, cell, dflt)))
            anyp = bool_or(anyp, now)
        rows.append((ky, bool_or(bool_or(py, mrow), anyp), MapV(tuple(cells), 'map')))
    return s.with_field(L.screen['buffer'], MapV(tuple(rows), 'map'))


def run_calls(eng, L, screen, calls):
    ses = Session(eng, L, screen=screen)
    displays = []
    try:
        for op, args in calls:
            r = ses.op(op, *args)
            if op == 'display':
                displays.append(deref_all(r))
        return 'ok', None, ses.screen, displays
    except Panic as e:
        return 'panic', str(e), ses.screen, displays


def path_indep(ctx, job, box):
    cols, lines = job.params['geom']
    label, op, mk = job.params['opspec']
    run = GridRun(ctx, box, cols, lines, cursor='pick', tabstops=1, savepoints=0, titles='none',
                  saved_columns='none', extra_mode=False)
    L = run.L
    s1 = run.pre
    s2 = materialise(ctx, L, s1)
    args = mk(ctx)
    run.call(op, *args)
    o2, m2, post2, disp2 = run_calls(run.eng, L, s2, [(op, args)])
    eng = run.eng

    def scenario(model):
        sc1, pred1 = run.scenario(model)
        st2 = snapshot(eng, L, s2, model)
        sc2 = {'cols': st2['columns'], 'lines': st2['lines'], 'state': st2, 'steps': run.steps(model)}
        if o2 == 'panic':
            pred2 = {'ok': False, 'panic': m2, 'out': []}
        else:
            ev = Ev(model)
            outs = [[ev.str(x) for x in d.items] for d in disp2]
            outs.append(snapshot(eng, L, post2, model))
            pred2 = {'ok': True, 'out': outs}
        return [(sc1, pred1), (sc2, pred2)]

    def describe(model):
        d = run.describe(model)
        st2 = snapshot(eng, L, s2, model)
        d['materialised_blanks'] = {y: sorted(x for x, c in r.items() if c[0] == ' ') for y, r in st2['buffer'].items()}
        d['outcome_sparse'] = run.outcome if run.outcome == 'ok' else 'panic: %s' % run.msg
        d['outcome_materialised'] = o2 if o2 == 'ok' else 'panic: %s' % m2
        return d

    if run.outcome != o2:
        return Check(False, scenario, describe, outcome='panic',
                     label='%s behaves differently after display()-style materialisation of blanks: %s vs %s'
                           % (label, run.outcome, o2))
    if run.outcome == 'panic':
        return Check(True, scenario, describe, label='both panic (reported by C01)')
    a, b = run.post, post2
    pc = ctx.concretize(bv(scr(L, a, 'columns')))
    pl = ctx.concretize(bv(scr(L, a, 'lines')))
    same_geom = bool_and(int_eq(scr(L, b, 'columns'), pc), int_eq(scr(L, b, 'lines'), pl))
    same_grid = grid_same_except(L, a, b, pc, pl, set())
    rest = fields_same(L, a, b, except_=('buffer',))
    ok = bool_and(bool_and(same_geom, same_grid), rest)
    # the relation must hold again afterwards for the induction over histories: what the two runs keep in
    # storage beyond the screen (shown by a later growth) must be the same as well
    ok = bool_and(ok, hidden_same(L, a, b, pc, pl))
    if op == 'display':
        d1, d2 = run.displays[-1], disp2[-1]
        ok = bool_and(ok, same(d1, d2))
    return Check(ok, scenario, describe,
                 label='%s: the result depends on whether blank cells were materialised (as display() does) before it' % label)


def jobs(tier):
    js = []
    rg = [(1, 1), (2, 1), (3, 1), (2, 2)] if tier == 'quick' else [(1, 1), (2, 1), (3, 1), (2, 2), (4, 1), (3, 2)]
    for g in rg:
        js.append(Job('render/%dx%d' % g, path_render, geom=g, prop=PROP))
    for g in ([(9, 6)] if tier == 'quick' else [(9, 6), (258, 2), (3, 258)]):
        js.append(Job('render/remote/%dx%d' % g, path_render, geom=g, remote=True, prop=PROP))
    ig = [(2, 1), (2, 2), (1, 3)] if tier == 'quick' else [(1, 1), (2, 1), (1, 2), (2, 2), (3, 2), (1, 3), (2, 3)]
    for g in ig:
        for spec in sweep.ops(tier, g[0], g[1]):
            if spec[0] in ('set_mode/any2', 'reset_mode/any2'):
                continue
            js.append(Job('indep/%s/%dx%d' % (spec[0], g[0], g[1]), path_indep, opspec=spec, geom=g, prop=PROP))
    return js


META = {
    'functions': ['display', 'display::{closure#0}', 'default_char', 'every operation of the sweep (twice per path)'],
    'bounds': 'render: grids up to 2x2/3x1 (thorough 3x2/4x1) with every cell absent or narrow/wide/placeholder/'
              'base+combining/symbol+VS16; independence: geometries quick {2x1,2x2,1x3} thorough {1x1,2x1,1x2,2x2,3x2,1x3,2x3}, every operation '
              'of the sweep, arbitrary symbolic materialisation mask over absent rows and cells',
    'outside': 'larger grids other than the remote ones (9x6; thorough + 258x2, 3x258) of which two adjacent pairs of cells '
               'may be written; cell texts other than the five kinds',
}
