"""C16 -- resize() preserves overlapping content and leaves a well-formed screen.

single: resize(lines', columns') from symbolic states (with margins, DECOM, pending-wrap cursor, wide
        characters, hidden-free) against the crop/extend rule on the observable grid;
seq:    [an edit or a first resize] then a growing resize: the uncovered area must be blank, i.e.
        nothing discarded earlier reappears (the second step is judged relative to what was visible
        before it)."""
import z3

from ..values import *
from ..engine import bool_and, bool_or, bool_not, to_z3bool
from ..harness import Job, Check, G
from ..symstate import sym_opt_u32, opt_parts, same
from .common import *

PROP = 'C16'


def resize_oracle(run, ctx, mid, post, cols, lines, checks, tag=''):
    """mid: state before the resize (geometry cols x lines, concrete); post: state after."""
    L = run.L
    pc = ctx.concretize(bv(scr(L, post, 'columns')))
    pl = ctx.concretize(bv(scr(L, post, 'lines')))
    drop = max(0, lines - pl)
    dflt = default_cell(L, post)
    if pc == cols and pl == lines:
        checks.append(run.check(fields_same(L, mid, post), tag + 'resize to the current size changed something'))
        return pc, pl
    grid = True
    for y in range(pl):
        for x in range(pc):
            src_y = y + drop
            if src_y < lines and x < cols:
                exp = cell_alts(L, mid, src_y, x)
            else:
                exp = [(True, dflt)]
            grid = bool_and(grid, alts_equal(exp, cell_alts(L, post, y, x)))
    checks.append(run.check(grid, tag + 'resize: overlapping content not kept in place / uncovered area not blank '
                                        '(rows must drop from the top, columns from the right)'))
    mg = scr(L, post, 'margins')
    no_m = (mg.disc == 0) if type(mg.disc) is not int else (mg.disc == 0)
    checks.append(run.check(no_m, tag + 'resize did not reset the scrolling region'))
    px, py, _, _ = cursor_of(L, post)
    inside = z3.And(z3.ULE(bv(px), pc), z3.ULT(bv(py), pl))
    checks.append(run.check(inside, tag + 'resize left the cursor outside the new bounds'))
    alld = True
    for y in range(pl):
        alld = bool_and(alld, dirty_has(L, post, y))
    checks.append(run.check(alld, tag + 'resize did not mark every row dirty'))
    return pc, pl


def path_single(ctx, job, box):
    cols, lines = job.params['geom']
    run = GridRun(ctx, box, cols, lines, cursor='pick', tabstops=1, savepoints=job.params.get('sp', 0),
                  sp_charsets='fixed', titles='none', extra_mode=False)
    L = run.L
    rl = sym_opt_u32(ctx, 'rl', 1, lines + 2)
    rc = sym_opt_u32(ctx, 'rc', 1, cols + 2)
    run.call('resize', rl, rc)
    if run.outcome == 'panic':
        return run.panic_check('resize panics: %s' % run.msg)
    checks = []
    resize_oracle(run, ctx, run.pre, run.post, cols, lines, checks)
    pre, post = run.pre, run.post
    frame = bool_and(fields_same(L, pre, post, except_=('buffer', 'dirty', 'cursor', 'margins', 'columns', 'lines')),
                     cursor_same(L, pre, post, except_=('x', 'y')))
    checks.append(run.check(frame, 'resize changed modes, tab stops, rendition, titles, charsets or the saved-cursor stack'))
    return checks


def pick_u32(ctx, name, values):
    """Some(v) with v one of `values` (chosen by the solver)."""
    v = ctx.bvvar(name, 32)
    ctx.assume(z3.Or([v == x for x in values]))
    return some(Int('u32', ctx.concretize(v)))


def path_remote(ctx, job, box):
    """resize between large sizes (around the 8-bit boundary) on a sparsely written screen."""
    cols, lines = job.params['geom']
    run = GridRun(ctx, box, cols, lines, tabstops=0, savepoints=0, titles='none', extra_mode=False, dirty='none',
                  saved_columns='none', **remote_opts(cols, lines))
    L = run.L
    tc = sorted({v for v in (1, cols // 2, 255, 256, 257, cols - 1, cols, cols + 1) if v >= 1 and abs(v - cols) <= 300})
    tl = sorted({v for v in (1, lines // 2, 255, 256, 257, lines - 1, lines, lines + 1) if v >= 1 and abs(v - lines) <= 300})
    # one dimension at a time (the other is kept, passed explicitly or absent)
    if job.params['dim'] == 'columns':
        run.call('resize', sym_opt_u32(ctx, 'rl', lines, lines), pick_u32(ctx, 'rc', tc))
    else:
        run.call('resize', pick_u32(ctx, 'rl', tl), sym_opt_u32(ctx, 'rc', cols, cols))
    if run.outcome == 'panic':
        return run.panic_check('resize panics: %s' % run.msg)
    checks = []
    resize_oracle(run, ctx, run.pre, run.post, cols, lines, checks)
    return checks


FIRST = ['resize', 'insert_characters', 'erase_in_line', 'reverse_index', 'index', 'delete_lines', 'insert_lines',
         'draw', 'erase_characters', 'delete_characters']


def path_seq(ctx, job, box):
    cols, lines = job.params['geom']
    first = job.params['first']
    run = GridRun(ctx, box, cols, lines, cursor='pick', tabstops=0, titles='none', saved_columns='none',
                  extra_mode=False)
    L = run.L
    if first == 'resize':
        run.call('resize', sym_opt_u32(ctx, 'l1', 1, lines + 1), sym_opt_u32(ctx, 'c1', 1, cols + 1))
    elif first in ('reverse_index', 'index'):
        run.call(first)
    elif first == 'erase_in_line':
        run.call(first, sym_opt_u32(ctx, 'n1', 0, 2), NONE)
    elif first == 'draw':
        run.call('draw', Str.of('Zコ'))
    else:
        run.call(first, sym_opt_u32(ctx, 'n1'))
    if run.outcome == 'panic':
        return run.panic_check('%s panics: %s' % (first, run.msg))
    mid = run.ses.screen
    mc = ctx.concretize(bv(scr(L, mid, 'columns')))
    ml = ctx.concretize(bv(scr(L, mid, 'lines')))
    run.call('resize', sym_opt_u32(ctx, 'l2', 1, lines + 2), sym_opt_u32(ctx, 'c2', 1, cols + 2))
    if run.outcome == 'panic':
        return run.panic_check('resize after %s panics: %s' % (first, run.msg))
    checks = []
    resize_oracle(run, ctx, mid, run.post, mc, ml, checks, tag='after %s: ' % first)
    return checks


def jobs(tier):
    js = []
    # the DECCOLM 132-column round trip (also with a stale remembered width left by an earlier switch)
    from . import c12
    for saved in ('none', 'sym'):
        js.append(Job('deccolm-roundtrip/%s/2x2' % saved, c12.path_roundtrip, geom=(2, 2), saved=saved, prop=PROP))
    for w in ((133, 256) if tier == 'quick' else (131, 133, 140, 255, 256, 257, 300, 512)):
        js.append(Job('deccolm-roundtrip/%dx1' % w, c12.path_roundtrip, geom=(w, 1), wide=True, prop=PROP))
    for g in ([(9, 6)] if tier == 'quick' else [(9, 6), (258, 2), (2, 258), (17, 9)]):
        for dim in ('columns', 'lines'):
            js.append(Job('remote/%s/%dx%d' % (dim, g[0], g[1]), path_remote, geom=g, dim=dim, prop=PROP))
    gs = [(1, 1), (2, 2), (3, 2), (1, 3), (1, 4)] if tier == 'quick' else [(1, 1), (2, 1), (1, 2), (2, 2), (3, 2), (2, 3), (3, 3)]
    for g in gs:
        js.append(Job('single/%dx%d' % g, path_single, geom=g, prop=PROP))
    js.append(Job('single+savepoint/2x2', path_single, geom=(2, 2), sp=1, prop=PROP))
    sg = [(2, 2)] if tier == 'quick' else [(2, 2), (3, 2), (2, 3)]
    for g in sg:
        for f in (FIRST[:6] if tier == 'quick' else FIRST):
            js.append(Job('seq/%s/%dx%d' % (f, g[0], g[1]), path_seq, first=f, geom=g, prop=PROP))
    return js


META = {
    'functions': ['Screen::resize', 'save_cursor', 'restore_cursor', 'cursor_position', 'delete_lines', 'set_margins',
                  'ensure_hbounds', 'ensure_vbounds'],
    'bounds': 'geometries {1x1,2x2,3x2,1x3,1x4} (thorough + {2x1,1x2,3x3}), every cell/row present or absent, margins, DECOM, '
              'pending-wrap cursor symbolic; target sizes 1..=size+2 in both dimensions (absent = keep); two-step '
              'sequences [resize | ICH | EL | RI | IND | DL | IL | draw | ECH | DCH] then resize on 2x2 (thorough + 3x2, 2x3)',
    'outside': 'larger screens other than the sparsely written remote ones (quick 9x6; thorough + 258x2, 2x258, 17x9 with '
               'target sizes around 1, half, 255..257 and size-1..size+1) and the DECCOLM round trip on never-written '
               'screens of 133 and 256 (thorough 131..512) columns; sequences longer than two steps',
}
