"""C18 -- tab stops: defaults, HTS/TBC editing and HT movement.  Parametric width 1..=300; up to three
symbolic stops anywhere in 0..=310 (i.e. including stale stops beyond a narrowed width)."""
import z3

from ..values import *
from ..engine import Engine, bool_and, bool_or, bool_not, to_z3bool
from ..harness import Job, Check, G
from ..state import Session, snapshot
from ..symstate import SymScreen, sym_opt_u32, opt_parts, same
from .. import stdlib
from .common import *
from . import c05

PROP = 'C18'


def mk(ctx, box, nstops):
    prog, L = G['prog'], G['L']
    eng = Engine(prog, ctx)
    box['eng'] = eng
    ss = SymScreen(ctx, eng, L, buffer='one', tabstops=nstops, geom_max=(300, 12))
    ses = Session(eng, L, screen=ss.value)
    return eng, L, ss, ses


def helpers(eng, L, pre, ses, calls):
    def scenario(model, post=None, outcome='ok', msg=None):
        st = snapshot(eng, L, pre, model)
        sc = {'cols': st['columns'], 'lines': st['lines'], 'state': st, 'steps': calls(model)}
        if outcome == 'panic':
            return sc, {'ok': False, 'panic': msg, 'out': []}
        return sc, {'ok': True, 'out': [snapshot(eng, L, post, model)]}

    def describe(model):
        st = snapshot(eng, L, pre, model)
        return {'geom': [st['columns'], st['lines']], 'cursor_x': st['cursor']['x'], 'tabstops': st['tabstops'],
                'calls': calls(model)}
    return scenario, describe


def stops_of(L, s):
    return [(bv(k), to_z3bool(p)) for (k, p, v) in scr(L, s, 'tabstops').e]


def path_tab(ctx, job, box):
    eng, L, ss, ses = mk(ctx, box, job.params['nstops'])
    pre = ss.value
    outcome, msg = 'ok', None
    try:
        ses.op('tab')
    except Panic as e:
        outcome, msg = 'panic', str(e)
    post = ses.screen
    sc0, describe = helpers(eng, L, pre, ses, lambda m: [['tab']])
    scenario = lambda m: sc0(m, post, outcome, msg)
    if outcome == 'panic':
        return Check(False, scenario, describe, outcome='panic', label='tab() panics: %s' % msg)
    x, C = ss.cx, ss.cols
    px = bv(cursor_of(L, post)[0])
    stops = stops_of(L, pre)
    qual = [z3.And(p, z3.UGT(k, x), z3.ULT(k, C)) for k, p in stops]
    none = z3.Not(z3.Or(qual)) if qual else z3.BoolVal(True)
    alts = [z3.And(none, px == C - 1)]
    for i, (k, p) in enumerate(stops):
        least = z3.And([z3.Implies(qual[j], z3.UGE(stops[j][0], k)) for j in range(len(stops))])
        alts.append(z3.And(qual[i], least, px == k))
    ok = z3.Or(alts)
    frame = bool_and(fields_same(L, pre, post, except_=('cursor',)), cursor_same(L, pre, post, except_=('x',)))
    return [Check(ok, scenario, describe, label='HT: cursor is not at the nearest stop to the right inside the screen / last column'),
            Check(frame, scenario, describe, label='HT changed state other than the cursor column')]


def path_edit(ctx, job, box):
    op = job.params['op']
    eng, L, ss, ses = mk(ctx, box, job.params['nstops'])
    pre = ss.value
    args = []
    if op == 'clear_tab_stop':
        a = sym_opt_u32(ctx, 'a')
        args = [a]
    outcome, msg = 'ok', None
    try:
        ses.op(op, *args)
    except Panic as e:
        outcome, msg = 'panic', str(e)
    post = ses.screen
    sc0, describe = helpers(eng, L, pre, ses, lambda m: [[op] + [c05.jval(m, x) for x in args]])
    scenario = lambda m: sc0(m, post, outcome, msg)
    if outcome == 'panic':
        return Check(False, scenario, describe, outcome='panic', label='%s panics: %s' % (op, msg))
    x = ss.cx
    # membership of an arbitrary column v before/after
    v = ctx.bvvar('probe_col', 32)
    was = stdlib.map_contains(None, scr(L, pre, 'tabstops'), Int('u32', v))
    now = stdlib.map_contains(None, scr(L, post, 'tabstops'), Int('u32', v))
    was, now = to_z3bool(was), to_z3bool(now)
    if op == 'set_tab_stop':
        exp = z3.Or(was, v == x)
    else:
        is_some, n = opt_parts(args[0])
        how = z3.If(to_z3bool(is_some), n.v, z3.BitVecVal(0, 32))
        exp = z3.If(how == 0, z3.And(was, v != x), z3.If(how == 3, z3.BoolVal(False), was))
    ok = now == exp
    frame = fields_same(L, pre, post, except_=('tabstops',))
    return [Check(ok, scenario, describe, label='%s: resulting stop set differs from the documented one' % op),
            Check(frame, scenario, describe, label='%s changed state other than the tab stops' % op)]


def path_defaults(ctx, job, box):
    """Screen::new(columns, lines) and reset() from an arbitrary state: stops == {8,16,..} < columns."""
    prog, L = G['prog'], G['L']
    eng = Engine(prog, ctx)
    box['eng'] = eng
    via = job.params['via']
    if via == 'new':
        c = ctx.bvvar('columns', 32)
        l = ctx.bvvar('lines', 32)
        ctx.assume(z3.And(z3.UGE(c, 1), z3.ULE(c, 300), z3.UGE(l, 1), z3.ULE(l, 3)))
        s = eng.call_path('Screen::new', [Int('u32', c), Int('u32', l)])
        pre = None
    else:
        ss = SymScreen(ctx, eng, L, buffer='one', tabstops=2, geom_max=(300, 3))
        ses = Session(eng, L, screen=ss.value)
        pre = ss.value
        ses.op('reset')
        s = ses.screen
        c = ss.cols

    def scenario(model):
        if via == 'new':
            cc = model.eval(c, model_completion=True).as_long()
            ll = model.eval(l, model_completion=True).as_long()
            return {'cols': cc, 'lines': ll, 'steps': []}, {'ok': True, 'out': [snapshot(eng, L, s, model)]}
        st = snapshot(eng, L, pre, model)
        return ({'cols': st['columns'], 'lines': st['lines'], 'state': st, 'steps': [['reset']]},
                {'ok': True, 'out': [snapshot(eng, L, s, model)]})

    def describe(model):
        st = snapshot(eng, L, s, model)
        return {'via': via, 'columns': st['columns'], 'tabstops_after': st['tabstops']}

    v = ctx.bvvar('probe_col', 32)
    now = to_z3bool(stdlib.map_contains(None, scr(L, s, 'tabstops'), Int('u32', v)))
    exp = z3.And(z3.UGE(v, 8), z3.ULT(v, c), z3.URem(v, 8) == 0)
    return Check(now == exp, scenario, describe, label='default tab stops after %s are not exactly every 8th column below the width' % via)


def path_resize(ctx, job, box):
    """A width/height change between setting a stop and using it must not edit the stop set."""
    prog, L = G['prog'], G['L']
    eng = Engine(prog, ctx)
    box['eng'] = eng
    ss = SymScreen(ctx, eng, L, buffer='none', tabstops=job.params['nstops'], geom_max=(300, 3), margins='none',
                   savepoints=0)
    ses = Session(eng, L, screen=ss.value)
    pre = ss.value
    rl = sym_opt_u32(ctx, 'rl', 1, 3)
    rc = sym_opt_u32(ctx, 'rc', 1, 300)
    outcome, msg = 'ok', None
    try:
        ses.op('resize', rl, rc)
    except Panic as e:
        outcome, msg = 'panic', str(e)
    post = ses.screen
    sc0, describe = helpers(eng, L, pre, ses, lambda m: [['resize', c05.jval(m, rl), c05.jval(m, rc)]])
    scenario = lambda m: sc0(m, post, outcome, msg)
    if outcome == 'panic':
        return Check(False, scenario, describe, outcome='panic', label='resize panics: %s' % msg)
    v = ctx.bvvar('probe_col', 32)
    was = to_z3bool(stdlib.map_contains(None, scr(L, pre, 'tabstops'), Int('u32', v)))
    now = to_z3bool(stdlib.map_contains(None, scr(L, post, 'tabstops'), Int('u32', v)))
    return Check(now == was, scenario, describe, label='resize edited the tab stops (only HTS/TBC/RIS may)')


def jobs(tier):
    js = []
    js.append(Job('resize/2stops', path_resize, nstops=2, prop=PROP))
    for n in ((0, 1, 2) if tier == 'quick' else (0, 1, 2, 3)):
        js.append(Job('tab/%dstops' % n, path_tab, nstops=n, prop=PROP))
    for op in ('set_tab_stop', 'clear_tab_stop'):
        for n in ((0, 2) if tier == 'quick' else (0, 1, 2, 3)):
            js.append(Job('%s/%dstops' % (op, n), path_edit, op=op, nstops=n, prop=PROP))
    js.append(Job('defaults/new', path_defaults, via='new', prop=PROP))
    js.append(Job('defaults/reset', path_defaults, via='reset', prop=PROP))
    return js


META = {
    'functions': ['tab', 'set_tab_stop', 'clear_tab_stop', 'reset', 'Screen::new'],
    'bounds': 'width 1..=300 symbolic, cursor column 0..=columns, 0..2 (thorough 3) symbolic stops with symbolic presence '
              'anywhere in 0..=310 (stale stops beyond the width included); TBC selector absent or 0..=9999; default '
              'stops checked for an arbitrary probe column after new()/reset() for every width',
    'outside': 'more than 3 simultaneous stops (the scan is a min over the set; its structure does not depend on the count)',
}
