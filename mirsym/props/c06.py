"""C06 -- scrolling and line insertion/deletion stay inside the scrolling region; DECSTBM."""
import z3

from ..values import *
from ..engine import bool_and, bool_or, bool_not, to_z3bool
from ..harness import Job, Check, G
from ..state import slice_u32, snapshot
from ..symstate import sym_opt_u32, opt_parts, SymScreen
from .common import *
from . import c05

PROP = 'C06'
GRID_OPS = ['index', 'linefeed', 'reverse_index', 'insert_lines', 'delete_lines']


def row_is_src(L, pre, post, y_post, y_pre, cols):
    r = True
    for x in range(cols):
        r = bool_and(r, alts_equal(cell_alts(L, post, y_post, x), cell_alts(L, pre, y_pre, x)))
    return r


def row_is_blank(L, post, y, cols):
    d = default_cell(L, post)
    r = True
    for x in range(cols):
        r = bool_and(r, alts_is(cell_alts(L, post, y, x), d))
    return r


def path_grid(ctx, job, box):
    cols, lines = job.params['geom']
    op = job.params['op']
    remote = job.params.get('remote')
    opts = dict(remote_opts(cols, lines), dirty='none', titles='none', extra_mode=False) if remote else {'cursor': 'pick'}
    run = GridRun(ctx, box, cols, lines, tabstops=1, **opts)
    L = run.L
    ss = run.ss
    if remote and ss.m_some is not False:
        # tall screen: the region is fixed per path (chosen by the solver among the listed ones), so that the
        # row loops of the implementation run over concrete bounds
        if ctx.branch(to_z3bool(ss.m_some)):
            ctx.concretize(ss.m_top)
            ctx.concretize(ss.m_bot)
    n_opt = None
    via = job.params.get('via', 'api')
    if via == 'api':
        if op in ('insert_lines', 'delete_lines'):
            n_opt = sym_opt_u32(ctx, 'a')
            if remote and lines > 40:
                is_some, nn = opt_parts(n_opt)
                ctx.assume(z3.Or([nn.v == v for v in (0, 1, 2, 255, 256, 257, lines - 1, lines, lines + 1, 9999)]))
                n_opt = some(Int('u32', ctx.concretize(nn.v))) if ctx.branch(to_z3bool(is_some)) else NONE
            run.call(op, n_opt)
        else:
            run.call(op)
    else:
        # the same operation as the recogniser delivers it
        if op in ('insert_lines', 'delete_lines'):
            _, n = feed_csi(run, ctx, 'L' if op == 'insert_lines' else 'M', job.params.get('ndigits', 0))
            n_opt = some(n)
        else:
            seq = {'index': [0x1b, ord('D')], 'reverse_index': [0x1b, ord('M')], 'linefeed': job.params.get('seq', [10])}[op]
            run.calls.append(('@feed', seq))
            try:
                run.ses.feed(Str(tuple(seq)))
            except Panic as e:
                run.outcome, run.msg = 'panic', str(e)
    if run.outcome == 'panic':
        return run.panic_check()
    pre, post = run.pre, run.post
    cx, cy = ss.cx, ss.cy
    has_m = to_z3bool(ss.m_some)
    top = z3.If(has_m, ss.m_top, z3.BitVecVal(0, 32))
    bot = z3.If(has_m, ss.m_bot, z3.BitVecVal(lines - 1, 32))
    CY = z3.BitVecVal(cy, 32)
    px, py, _, _ = cursor_of(L, post)
    px, py = bv(px), bv(py)
    B = lambda v: z3.BitVecVal(v, 32)
    checks = []
    rows_ok = True
    if op in ('index', 'linefeed', 'reverse_index'):
        up = op != 'reverse_index'
        at_margin = (CY == bot) if up else (CY == top)
        for y in range(lines):
            inside = z3.And(z3.UGE(B(y), top), z3.ULE(B(y), bot))
            if up:
                vac = B(y) == bot
                src = y + 1
            else:
                vac = B(y) == top
                src = y - 1
            same_row = to_z3bool(row_is_src(L, pre, post, y, y, cols))
            blank = to_z3bool(row_is_blank(L, post, y, cols))
            moved = to_z3bool(row_is_src(L, pre, post, y, src, cols)) if 0 <= src < lines else z3.BoolVal(False)
            exp = z3.If(z3.And(at_margin, inside), z3.If(vac, blank, moved), same_row)
            rows_ok = bool_and(rows_ok, exp)
        if up:
            ny = z3.If(at_margin, CY, z3.If(z3.ULE(CY + 1, bot), CY + 1, bot))
        else:
            ny = z3.If(at_margin, CY, z3.If(z3.And(z3.UGE(CY, 1), z3.UGE(CY - 1, top)), CY - 1, top))
        nx = B(cx)
        if op == 'linefeed':
            nx = z3.If(to_z3bool(ss.mode_in['LNM']), B(0), B(cx))
        cur_ok = z3.And(px == nx, py == ny)
    else:
        is_some, n = opt_parts(n_opt)
        nv = n.v if n is not None else 0
        if isinstance(nv, int):
            nv = B(nv)
        cnt = z3.If(z3.And(to_z3bool(is_some), nv != 0), nv, B(1))
        kc = z3.simplify(cnt)
        kc = kc.as_long() if z3.is_bv_value(kc) else None
        active = z3.And(z3.ULE(top, CY), z3.ULE(CY, bot))
        for y in range(lines):
            in_span = z3.And(active, z3.UGE(B(y), CY), z3.ULE(B(y), bot))
            same_row = to_z3bool(row_is_src(L, pre, post, y, y, cols))
            blank = to_z3bool(row_is_blank(L, post, y, cols))
            # which source row lands here?
            alts = blank
            for s in range(lines):
                d = y - s if op == 'insert_lines' else s - y
                if d <= 0 or (kc is not None and d != kc):
                    continue
                if op == 'insert_lines':
                    cond = z3.And(cnt == d, z3.UGE(B(s), CY))
                else:
                    cond = z3.And(cnt == d, z3.ULE(B(s), bot))
                alts = z3.If(cond, to_z3bool(row_is_src(L, pre, post, y, s, cols)), alts)
            rows_ok = bool_and(rows_ok, z3.If(in_span, alts, same_row))
        cur_ok = z3.And(px == z3.If(active, B(0), B(cx)), py == CY)
    checks.append(run.check(rows_ok, '%s: rows after the operation differ from the documented shift/blank/untouched layout' % op))
    checks.append(run.check(cur_ok, '%s: cursor position differs from the documented one' % op))
    frame = bool_and(fields_same(L, pre, post, except_=('buffer', 'dirty', 'cursor')),
                     cursor_same(L, pre, post, except_=('x', 'y')))
    checks.append(run.check(frame, '%s changed state other than grid, cursor position and dirty set' % op))
    # "the line pushed out is gone": it must not survive in storage outside the screen either
    checks.append(run.check(no_hidden(L, post, cols, lines),
                            '%s keeps a line or cell in storage beyond the screen (it is not gone; a taller or wider '
                            'resize shows it again)' % op))
    return checks


def path_autowrap(ctx, job, box):
    """A printable character arriving in the pending-wrap column with DECAWM on is an index: at the bottom
    margin the region scrolls by exactly one line, elsewhere the cursor just moves down; the character
    then lands in column 0 of the cursor's new row."""
    cols, lines = job.params['geom']
    ch = job.params['ch']
    w = job.params['w']
    modes = {'IRM': False, 'DECAWM': True, 'DECOM': 'sym', 'LNM': 'sym', 'DECSCNM': 'sym', 'DECTCEM': True, 'DECCOLM': False}
    run = GridRun(ctx, box, cols, lines, cursor=('among', [(cols, y) for y in range(lines)]), tabstops=0, modes=modes,
                  extra_mode=False, titles='none', saved_columns='none')
    L = run.L
    ss = run.ss
    run.call('draw', Str.of(ch))
    if run.outcome == 'panic':
        return run.panic_check()
    pre, post = run.pre, run.post
    cy = ss.cy
    B = lambda v: z3.BitVecVal(v, 32)
    has_m = to_z3bool(ss.m_some)
    top = z3.If(has_m, ss.m_top, B(0))
    bot = z3.If(has_m, ss.m_bot, B(lines - 1))
    CY = B(cy)
    at_margin = CY == bot
    ny = z3.If(at_margin, CY, z3.If(z3.ULE(CY + 1, bot), CY + 1, bot))
    _, _, attr, _ = cursor_of(L, pre)
    lead = attr.with_field(L.char['data'], Str.of(ch))
    holder = attr.with_field(L.char['data'], Str(()))
    dflt = default_cell(L, post)
    cells_ok = True
    for y in range(lines):
        inside = z3.And(z3.UGE(B(y), top), z3.ULE(B(y), bot))
        for x in range(cols):
            pa = cell_alts(L, post, y, x)
            same_cell = to_z3bool(alts_equal(pa, cell_alts(L, pre, y, x)))
            blank = to_z3bool(alts_is(pa, dflt))
            moved = to_z3bool(alts_equal(pa, cell_alts(L, pre, y + 1, x))) if y + 1 < lines else z3.BoolVal(False)
            exp = z3.If(z3.And(at_margin, inside), z3.If(B(y) == bot, blank, moved), same_cell)
            if x < w:
                drawn = to_z3bool(alts_is(pa, lead if x == 0 else holder))
                exp = z3.If(B(y) == ny, drawn, exp)
            cells_ok = bool_and(cells_ok, exp)
    px, py, _, _ = cursor_of(L, post)
    cur_ok = z3.And(bv(px) == min(w, cols), bv(py) == ny)
    frame = bool_and(fields_same(L, pre, post, except_=('buffer', 'dirty', 'cursor')),
                     cursor_same(L, pre, post, except_=('x', 'y')))
    return [run.check(cells_ok, 'autowrap (%s): the region did not scroll by exactly one line at the bottom margin / rows '
                                'changed elsewhere / the character is not in column 0 of the new row' % job.params['cls']),
            run.check(cur_ok, 'autowrap (%s): cursor is not on the documented row/column' % job.params['cls']),
            run.check(frame, 'autowrap (%s) changed state other than grid, cursor position and dirty set' % job.params['cls']),
            run.check(no_hidden(L, post, cols, lines), 'autowrap (%s) keeps a line or cell in storage beyond the screen' % job.params['cls'])]


def path_margins(ctx, job, box):
    """set_margins on a parametric geometry."""
    from ..engine import Engine
    from ..state import Session
    prog, L = G['prog'], G['L']
    eng = Engine(prog, ctx)
    box['eng'] = eng
    ss = SymScreen(ctx, eng, L, buffer='one', tabstops=1, geom_max=(300, 300))
    ses = Session(eng, L, screen=ss.value)
    pre = ss.value
    a = sym_opt_u32(ctx, 'a')
    b = sym_opt_u32(ctx, 'b')
    outcome, msg = 'ok', None
    via = job.params.get('via', 'api')
    try:
        ses.op('set_margins', a, b)
    except Panic as e:
        outcome, msg = 'panic', str(e)
    post = ses.screen

    def scenario(model):
        st = snapshot(eng, L, pre, model)
        sc = {'cols': st['columns'], 'lines': st['lines'], 'state': st,
              'steps': [['set_margins', c05.jval(model, a), c05.jval(model, b)]]}
        if outcome == 'panic':
            return sc, {'ok': False, 'panic': msg, 'out': []}
        return sc, {'ok': True, 'out': [snapshot(eng, L, post, model)]}

    def describe(model):
        st = snapshot(eng, L, pre, model)
        return {'geom': [st['columns'], st['lines']], 'cursor': [st['cursor']['x'], st['cursor']['y']],
                'margins': st['margins'], 'DECOM': 192 in st['mode'],
                'call': ['set_margins', c05.jval(model, a), c05.jval(model, b)],
                'outcome': outcome if outcome == 'ok' else 'panic: ' + str(msg)}

    if outcome == 'panic':
        return Check(False, scenario, describe, outcome='panic', label='panic: %s' % msg)
    Z = lambda v: z3.ZeroExt(32, v)
    Ln = Z(ss.lines)
    a_some, an = opt_parts(a)
    b_some, bn = opt_parts(b)
    a_some, b_some = to_z3bool(a_some), to_z3bool(b_some)
    an, bn = Z(an.v), Z(bn.v)
    has_m = to_z3bool(ss.m_some)
    cur_top = z3.If(has_m, Z(ss.m_top), z3.BitVecVal(0, 64))
    cur_bot = z3.If(has_m, Z(ss.m_bot), Ln - 1)
    remove = z3.And(z3.Or(z3.Not(a_some), an == 0), z3.Not(b_some))
    clamp1 = lambda n: z3.If(n == 0, z3.BitVecVal(0, 64), z3.If(z3.ULE(n - 1, Ln - 1), n - 1, Ln - 1))
    t = z3.If(a_some, clamp1(an), cur_top)
    bt = z3.If(b_some, clamp1(bn), cur_bot)
    accept = z3.And(z3.Not(remove), z3.UGT(bt, t))
    mg = post.f[L.screen['margins']]
    pm_some = (mg.disc == 1) if type(mg.disc) is not int else z3.BoolVal(mg.disc == 1)
    if 1 in mg.pay:
        mm = mg.pay[1][0]
        pt, pb = Z(bv(mm.f[L.margins['top']])), Z(bv(mm.f[L.margins['bottom']]))
    else:
        pt = pb = z3.BitVecVal(0, 64)
    margins_ok = z3.If(remove, z3.Not(pm_some),
                       z3.If(accept, z3.And(pm_some, pt == t, pb == bt),
                             to_z3bool(same(pre.f[L.screen['margins']], mg))))
    cur = post.f[L.screen['cursor']]
    px, py = Z(bv(cur.f[L.cursor['x']])), Z(bv(cur.f[L.cursor['y']]))
    decom = to_z3bool(ss.mode_in['DECOM'])
    home_y = z3.If(decom, t, z3.BitVecVal(0, 64))
    cur_ok = z3.If(accept, z3.And(px == 0, py == home_y), z3.And(px == Z(ss.cx), py == Z(ss.cy)))
    frame = bool_and(fields_same(L, pre, post, except_=('margins', 'cursor')), cursor_same(L, pre, post, except_=('x', 'y')))
    return [Check(margins_ok, scenario, describe, label='DECSTBM: resulting region differs from the documented acceptance/clamping rule'),
            Check(cur_ok, scenario, describe, label='DECSTBM: cursor not homed on acceptance / moved on rejection'),
            Check(frame, scenario, describe, label='DECSTBM changed state other than margins and cursor position')]


def jobs(tier):
    gs = [(1, 1), (1, 2), (1, 3), (2, 3), (1, 4)] if tier == 'quick' else \
        [(1, 1), (1, 2), (2, 2), (1, 3), (2, 3), (1, 4), (2, 4), (1, 5)]
    js = []
    for g in gs:
        for op in GRID_OPS:
            js.append(Job('%s/%dx%d' % (op, g[0], g[1]), path_grid, op=op, geom=g, prop=PROP))
    js.append(Job('set_margins/parametric', path_margins, prop=PROP))
    # tall screens (also past the 8-bit boundary), sparsely written
    for g in ([(2, 9)] if tier == 'quick' else [(2, 9), (1, 17), (2, 258)]):
        for op in GRID_OPS:
            js.append(Job('remote/%s/%dx%d' % (op, g[0], g[1]), path_grid, op=op, geom=g, remote=True, prop=PROP))
    for g in ([(2, 3)] if tier == 'quick' else [(1, 3), (2, 3), (3, 2), (2, 4)]):
        for cls, ch, w in (('narrow', 'Z', 1), ('wide', 'コ', 2)):
            js.append(Job('autowrap/%s/%dx%d' % (cls, g[0], g[1]), path_autowrap, geom=g, ch=ch, w=w, cls=cls, prop=PROP))
    g = (1, 3)
    for op in ('index', 'reverse_index'):
        js.append(Job('parser/%s/1x3' % op, path_grid, op=op, geom=g, via='parser', prop=PROP))
    for nm, seq in (('LF', [10]), ('VT', [11]), ('FF', [12]), ('NEL', [0x1b, ord('E')])):
        js.append(Job('parser/linefeed-%s/1x3' % nm, path_grid, op='linefeed', geom=g, via='parser', seq=seq, prop=PROP))
    for op in ('insert_lines', 'delete_lines'):
        for nd in (0, 1, 2):
            js.append(Job('parser/%s/%d/1x3' % (op, nd), path_grid, op=op, geom=g, via='parser', ndigits=nd, prop=PROP))
    return js


META = {
    'functions': ['draw (autowrap)', 'index', 'linefeed', 'reverse_index', 'insert_lines', 'delete_lines', 'set_margins', 'cursor_up',
                  'cursor_down', 'cursor_position', 'cariage_return'],
    'bounds': 'lines 1..4 (thorough 5) x columns 1..2, every row/cell symbolically present or absent with distinct '
              'markers and symbolic renditions; every region (top,bottom) and cursor row; counts absent or 0..=9999; '
              'set_margins on symbolic geometry 1..=300 x 1..=300 with both parameters absent or 0..=9999',
    'outside': 'taller/wider screens other than the sparsely written tall ones (quick 2x9; thorough + 1x17, 2x258 with the '
               'count picked around 0..2, 255..257, lines-1..lines+1, 9999); autowrap-triggered scrolling with insert mode on (covered by C04)',
}
