"""C02 -- streaming: the result is independent of how input is chunked.

Relational and model-free: the same symbolic input is fed in one call and cut into two (thorough:
three) calls, to two instances of the real recogniser / byte parser in the same engine; the listener
events, the recogniser's suspended position and flag, the characters handed on and the decoder's
carry-over must be equal.  Equality for every single cut from every state reached gives equality for
every partition by induction on the number of cuts."""
import z3

from ..values import *
from ..engine import Engine, bool_and, bool_or, bool_not, to_z3bool, int_eq
from ..harness import Job, Check, G
from ..state import Session, Recorder, Ev, snapshot
from ..symstate import same
from .. import stdlib
from .c03 import valid_scalar
from .recog import events_same

PROP = 'C02'


def parser_state(ses, i_plain):
    p = ses.parser.v
    co = deref_all(p.f[0]).data
    fr = co.stack[-1] if co.stack else None
    return p.f[i_plain], (fr.bb if fr is not None else None)


def path_chars(ctx, job, box):
    prog, L = G['prog'], G['L']
    eng = Engine(prog, ctx)
    box['eng'] = eng
    n = job.params['len']
    cuts = job.params['cuts']          # tuple of cut positions
    prefix = job.params.get('prefix', '')
    recA, recB = Recorder(), Recorder()
    eng.py_listeners['RecA'] = recA
    eng.py_listeners['RecB'] = recB
    sA = Session(eng, L, listener='RecA')
    sB = Session(eng, L, listener='RecB')
    utf8 = ctx.boolvar('utf8')
    i_plain = prog.src.structs['Parser'].index('taking_plain_text')
    chars = [ord(ch) for ch in prefix]
    for i in range(n):
        c = ctx.bvvar('c%d' % i, 32)
        ctx.assume(valid_scalar(c))
        chars.append(c)
    bounds = [0] + list(cuts) + [len(chars)]
    chunks = [chars[bounds[i]:bounds[i + 1]] for i in range(len(bounds) - 1)]
    outA = outB = 'ok'
    msg = None
    try:
        sA.step(['set_use_utf8', utf8])
        sA.feed(Str(tuple(chars)))
    except Panic as e:
        outA, msg = 'panic', str(e)
    try:
        sB.step(['set_use_utf8', utf8])
        for ch in chunks:
            sB.feed(Str(tuple(ch)))
    except Panic as e:
        outB, msg = 'panic', str(e)

    def jchunks(model, chs):
        ev = Ev(model)
        return [['feed_cps', [ev.int(c) for c in ch]] for ch in chs]

    def scenario(model):
        from ..selftest import rec_json
        ev = Ev(model)
        u = ev.bool(utf8)
        a = ({'listener': 'rec', 'steps': [['set_use_utf8', u]] + jchunks(model, [chars])},
             {'ok': outA == 'ok', 'out': [rec_json(recA, ev)] if outA == 'ok' else [], 'panic': msg})
        b = ({'listener': 'rec', 'steps': [['set_use_utf8', u]] + jchunks(model, chunks)},
             {'ok': outB == 'ok', 'out': [rec_json(recB, ev)] if outB == 'ok' else [], 'panic': msg})
        return [a, b]

    def describe(model):
        ev = Ev(model)
        return {'utf8_mode': ev.bool(utf8), 'input': ''.join(chr(ev.int(c)) for c in chars).encode('unicode_escape').decode(),
                'cut_into': [len(c) for c in chunks], 'one_call': outA, 'chunked': outB}

    if outA != outB:
        return Check(False, scenario, describe, outcome='panic', label='one call %s but the chunked feed %s' % (outA, outB))
    if outA == 'panic':
        return Check(True, scenario, describe, label='both panic (C01)')
    ok, why = events_same(recA.events, recB.events)
    checks = [Check(ok, scenario, describe, label='listener events depend on where the input was cut%s' % ((': ' + why) if why else ''))]
    fa, ba = parser_state(sA, i_plain)
    fb, bb = parser_state(sB, i_plain)
    checks.append(Check(bool_and(same(fa, fb), ba == bb), scenario, describe,
                        label='the recogniser is left in a different state depending on where the input was cut'))
    return checks


def path_bytes(ctx, job, box):
    prog, L = G['prog'], G['L']
    eng = Engine(prog, ctx)
    box['eng'] = eng
    n = job.params['len']
    cuts = job.params['cuts']
    mode = job.params.get('mode', 'utf8')
    fedA, fedB = [], []
    cur = {'t': fedA}

    def hook(args):
        if type(deref_all(args[1])) in (Str, SChoice):
            cur['t'].append(stdlib.as_str_nofork(args[1]))
            return ('skip', UNIT)
        return None
    full = job.params.get('full', False)     # run the recogniser too (listener events are compared)
    if not full:
        eng.call_hooks['>::feed'] = hook
    recA, recB = Recorder(), Recorder()
    eng.py_listeners['RecA'] = recA
    eng.py_listeners['RecB'] = recB
    sA = Session(eng, L, listener='RecA')
    sB = Session(eng, L, listener='RecB')
    bs = [z3.BitVecVal(b, 8) for b in job.params.get('prefix', ())]
    bs += [ctx.bvvar('b%d' % i, 8) for i in range(n)]
    bs += [z3.BitVecVal(b, 8) for b in job.params.get('suffix', ())]
    n = len(bs)
    bounds = [0] + list(cuts) + [n]
    chunks = [bs[bounds[i]:bounds[i + 1]] for i in range(len(bounds) - 1)]
    outA = outB = 'ok'
    msg = None
    try:
        cur['t'] = fedA
        sA.ensure_bparser()
        if mode == '8bit':
            sA.step(['select_other_charset', '@'])
        sA.feed_bytes([Int('u8', b) for b in bs])
    except Panic as e:
        outA, msg = 'panic', str(e)
    try:
        cur['t'] = fedB
        sB.ensure_bparser()
        if mode == '8bit':
            sB.step(['select_other_charset', '@'])
        for ch in chunks:
            sB.feed_bytes([Int('u8', b) for b in ch])
    except Panic as e:
        outB, msg = 'panic', str(e)

    def jb(model, chs):
        return [['feed_bytes', [model.eval(b, model_completion=True).as_long() for b in ch]] for ch in chs]

    def scenario(model):
        """Both runs are confirmed natively the way C11 does it: the real byte parser fed the bytes must
        produce the same events as the real char parser fed the characters the engine says are handed over."""
        from .. import harness as H
        ev = Ev(model)
        pre = [['byte_parser']] + ([['select_other_charset', '@']] if mode == '8bit' else [])

        def pred(fed, out, rec=None):
            if out != 'ok':
                return {'ok': False, 'out': [], 'panic': msg}
            if full:
                from ..selftest import rec_json
                return {'ok': True, 'out': [rec_json(rec, ev)]}
            st = [['parser'], ['set_use_utf8', mode != '8bit']]
            for f in fed:
                st.append(['feed_cps', [ev.int(c) for c in f.c]])
            r = H.native('dev').run({'listener': 'rec', 'steps': st})
            return {'ok': r.get('ok'), 'out': r.get('out'), 'panic': r.get('panic')}
        a = {'listener': 'rec', 'steps': pre + jb(model, [bs])}
        b = {'listener': 'rec', 'steps': pre + jb(model, chunks)}
        return [(a, pred(fedA, outA, recA)), (b, pred(fedB, outB, recB))]

    def describe(model):
        ev = Ev(model)
        return {'mode': mode, 'bytes': [model.eval(b, model_completion=True).as_long() for b in bs],
                'cut_into': [len(c) for c in chunks],
                'one_call_hands_over': [[ev.int(c) for c in s.c] for s in fedA],
                'chunked_hands_over': [[ev.int(c) for c in s.c] for s in fedB], 'one_call': outA, 'chunked': outB}

    if outA != outB:
        return Check(False, scenario, describe, outcome='panic', label='one call %s but the chunked feed %s' % (outA, outB))
    if outA == 'panic':
        return Check(True, scenario, describe, label='both panic (C01)')
    if full:
        ok, why = events_same(recA.events, recB.events)
        return [Check(ok, scenario, describe,
                      label='listener events of a byte stream depend on where it was cut%s' % ((': ' + why) if why else ''))]
    a = [c for s in fedA for c in s.c]
    b = [c for s in fedB for c in s.c]
    if len(a) != len(b):
        return Check(False, scenario, describe, label='chunked byte input hands %d characters to the recogniser, one call hands %d' % (len(b), len(a)))
    ok = True
    for x, y in zip(a, b):
        ok = bool_and(ok, int_eq(x, y))
    checks = [Check(ok, scenario, describe, label='characters decoded from byte input depend on where it was cut')]
    da = sA.bparser.v
    db = sB.bparser.v
    i_dec = prog.src.structs['ByteParser'].index('utf8_decoder') if 'utf8_decoder' in prog.src.structs['ByteParser'] else None
    carry = True
    for idx, name in enumerate(prog.src.structs['ByteParser']):
        if name == 'parser':
            continue
        carry = bool_and(carry, _carry_same(da.f[idx], db.f[idx]))
    checks.append(Check(carry, scenario, describe, label='the undecoded carry-over differs depending on where the input was cut'))
    return checks


def _carry_same(a, b):
    try:
        return same(a, b)
    except Unmodelled:
        return a is b or repr(a) == repr(b)


def _fed_same(fa, fb, model):
    ev = Ev(model)
    a = [ev.int(c) for s in fa for c in s.c]
    b = [ev.int(c) for s in fb for c in s.c]
    return a == b


def json_differs(a, b):
    import json
    return json.dumps(a, sort_keys=True) != json.dumps(b, sort_keys=True)


def path_screen(ctx, job, box):
    """End to end on a Screen: a concrete session of bytes cut at a symbolic position."""
    prog, L = G['prog'], G['L']
    eng = Engine(prog, ctx)
    box['eng'] = eng
    data = job.params['data']
    k = job.params['cut']
    sA = Session(eng, L, cols=6, lines=3)
    sB = Session(eng, L, cols=6, lines=3)
    out = 'ok'
    try:
        sA.feed_bytes([Int('u8', b) for b in data])
        sB.feed_bytes([Int('u8', b) for b in data[:k]])
        sB.feed_bytes([Int('u8', b) for b in data[k:]])
    except Panic as e:
        out = 'panic: %s' % e

    def scenario(model):
        a = ({'cols': 6, 'lines': 3, 'steps': [['feed_bytes', list(data)]]},
             {'ok': out == 'ok', 'out': [snapshot(eng, L, sA.screen, model)] if out == 'ok' else []})
        b = ({'cols': 6, 'lines': 3, 'steps': [['feed_bytes', list(data[:k])], ['feed_bytes', list(data[k:])]]},
             {'ok': out == 'ok', 'out': [snapshot(eng, L, sB.screen, model)] if out == 'ok' else []})
        return [a, b]

    def describe(model):
        return {'bytes': list(data), 'cut_at': k, 'outcome': out}
    if out != 'ok':
        return Check(False, scenario, describe, outcome='panic', label='byte session panics: ' + out)
    from .common import fields_same
    return Check(fields_same(L, sA.screen, sB.screen), scenario, describe,
                 label='terminal state after a byte session depends on where it was cut')


def path_screen_chars(ctx, job, box):
    """End to end on a Screen through the char Parser: a concrete text with decomposed and composed
    characters, wide characters and sequences, cut at every character boundary."""
    prog, L = G['prog'], G['L']
    eng = Engine(prog, ctx)
    box['eng'] = eng
    data = job.params['data']
    k = job.params['cut']
    sA = Session(eng, L, cols=8, lines=3)
    sB = Session(eng, L, cols=8, lines=3)
    out = 'ok'
    try:
        sA.feed(Str.of(data))
        sB.feed(Str.of(data[:k]))
        sB.feed(Str.of(data[k:]))
    except Panic as e:
        out = 'panic: %s' % e

    def scenario(model):
        a = ({'cols': 8, 'lines': 3, 'steps': [['feed', data]]},
             {'ok': out == 'ok', 'out': [snapshot(eng, L, sA.screen, model)] if out == 'ok' else []})
        b = ({'cols': 8, 'lines': 3, 'steps': [['feed', data[:k]], ['feed', data[k:]]]},
             {'ok': out == 'ok', 'out': [snapshot(eng, L, sB.screen, model)] if out == 'ok' else []})
        return [a, b]

    def describe(model):
        return {'text': data.encode('unicode_escape').decode(), 'cut_at': k, 'outcome': out}
    if out != 'ok':
        return Check(False, scenario, describe, outcome='panic', label='character session panics: ' + out)
    from .common import fields_same
    return Check(fields_same(L, sA.screen, sB.screen), scenario, describe,
                 label='terminal state after a character session depends on where it was cut')


CHAR_SESSION = 'cafe\u0301 e\u0308\u0301\u00e9コ\x1b]2;o\u0302t\x07\x1b[1mA\u030a\r\nq'
SESSION = 'aé\x1b[2;3Hコ\x1b]2;t\x07\x1b[1mZ\r\n\x9b7mq'.encode('utf-8')


def jobs(tier):
    js = []
    n = 3 if tier == 'quick' else 4
    for k in range(0, n + 1):
        js.append(Job('chars/len%d/cut%d' % (n, k), path_chars, len=n, cuts=(k,), prop=PROP))
    for pre in ('\x1b[', '\x9b1;', '\x1b]0;', '\x1b(', '\x1b'):
        m = len(pre) + 2
        for k in range(1, m):
            js.append(Job('chars/%s+2/cut%d' % (pre.encode('unicode_escape').decode(), k), path_chars, len=2, prefix=pre,
                          cuts=(k,), prop=PROP))
    if tier == 'thorough':
        for a in range(0, 4):
            for b in range(a, 4):
                js.append(Job('chars/len3/cut%d,%d' % (a, b), path_chars, len=3, cuts=(a, b), prop=PROP))
    nb = 3 if tier == 'quick' else 4
    for m in range(1, nb + 1):
        for k in range(0, m + 1):
            js.append(Job('bytes/len%d/cut%d' % (m, k), path_bytes, len=m, cuts=(k,), prop=PROP))
    if tier == 'quick':
        js.append(Job('bytes/len4/cut2', path_bytes, len=4, cuts=(2,), prop=PROP))
        js.append(Job('bytes/len4/cut1', path_bytes, len=4, cuts=(1,), prop=PROP))
        js.append(Job('bytes/len4/cut3', path_bytes, len=4, cuts=(3,), prop=PROP))
    else:
        for a in range(0, 4):
            for b in range(a, 4):
                js.append(Job('bytes/len3/cut%d,%d' % (a, b), path_bytes, len=3, cuts=(a, b), prop=PROP))
    for k in range(0, 3):
        js.append(Job('bytes8/len2/cut%d' % k, path_bytes, len=2, cuts=(k,), mode='8bit', prop=PROP))
    # byte streams through decoder AND recogniser: sequences that act on the parser itself (ESC % x, SO/SI,
    # designators) followed by bytes whose decoding depends on the mode
    for name, pre, nsym, suf in (('escpct', b'a\x1b%', 1, b'\xe9t\xc3\xa9'), ('escpct@', b'ab\x1b%@', 0, b'\xe9t\xe9'),
                                 ('escpctG', b'\x1b%G', 0, b'\xc3\xa9\xe9'), ('so', b'\x0e', 1, b'q\x0f'),
                                 ('sym2', b'', 2, b'')):
        total = len(pre) + nsym + len(suf)
        for k in range(1, total):
            js.append(Job('bytesfull/%s/cut%d' % (name, k), path_bytes, len=nsym, cuts=(k,), prefix=tuple(pre),
                          suffix=tuple(suf), full=True, prop=PROP))
    for k in range(1, 6):
        js.append(Job('bytesfull8/escpct@/cut%d' % k, path_bytes, len=0, cuts=(k,), prefix=tuple(b'\x1b%G\xc3\xa9Z'),
                      suffix=(), full=True, mode='8bit', prop=PROP))
    for k in range(0, len(SESSION) + 1):
        js.append(Job('session/cut%d' % k, path_screen, data=tuple(SESSION), cut=k, prop=PROP))
    for k in range(0, len(CHAR_SESSION) + 1):
        js.append(Job('charsession/cut%d' % k, path_screen_chars, data=CHAR_SESSION, cut=k, prop=PROP))
    return js


META = {
    'functions': ['Parser::feed', 'Parser::new::{closure#0}', 'ByteParser::feed', 'ByteParser::select_other_charset'],
    'bounds': 'character input: 3 (thorough 4) unconstrained symbolic code points, every 2-way cut incl. empty chunks '
              '(thorough also every 3-way cut of 3), plus shaped prefixes (ESC [, CSI 1;, OSC 0;, ESC (, ESC) followed by '
              '2 symbolic characters cut at every position, both parser modes; byte input: 1..3 symbolic bytes at every '
              'cut and 4 bytes at cuts 1,2,3 (thorough: 1..4 at every cut, 3-way cuts of 3), UTF-8 and 8-bit mode; one '
              'concrete %d-byte session on a 6x3 Screen cut at every byte offset, and one concrete %d-character session (decomposed/composed '
              'characters, wide characters, OSC, SGR) cut at every character boundary' % (len(SESSION), len(CHAR_SESSION)),
    'outside': 'longer inputs that are not covered by induction over cuts from the states reached within the bound',
}
