"""C11 -- byte input is decoded as streaming UTF-8 (or 1:1 in 8-bit mode).

ByteParser::feed is executed from its MIR on symbolic bytes for every composition into chunks (and
with mode switches between chunks); what it hands to Parser::feed is compared with an independent
streaming decoder (a byte-at-a-time automaton over the well-formed ranges of Unicode table 3-7) run
over the concatenation.  The engine's encoding_rs summary is validated against the real encoding_rs
at start-up (prelude)."""
import itertools
import json
import subprocess
import z3

from ..values import *
from ..engine import Engine, Ctx, bool_and, bool_or, bool_not, to_z3bool, int_eq
from ..harness import Job, Check, G
from ..state import Session, Recorder, Ev
from .. import stdlib

PROP = 'C11'


class RefDecoder:
    """Streaming UTF-8 decoder, one byte at a time.  State: number of continuation bytes still needed,
    the admissible range of the next one, the code point so far."""

    def __init__(self, ctx):
        self.ctx = ctx
        self.need = 0
        self.lo, self.hi = 0x80, 0xBF
        self.cp = None
        self.out = []

    def pending(self):
        return self.need > 0

    def _in(self, b, lo, hi):
        return self.ctx.branch(z3.And(z3.UGE(b, lo), z3.ULE(b, hi)))

    def push(self, b):
        """b: z3 BV8 or python int."""
        if type(b) is int:
            b = z3.BitVecVal(b, 8)
        e = z3.ZeroExt(24, b)
        if self.need:
            if self._in(b, self.lo, self.hi):
                self.cp = (self.cp << 6) | (e & 0x3F)
                self.need -= 1
                self.lo, self.hi = 0x80, 0xBF
                if self.need == 0:
                    self.out.append(self.cp)
                return
            # ill-formed: what was collected is one maximal subpart; the byte starts afresh
            self.out.append(0xFFFD)
            self.need = 0
            self.lo, self.hi = 0x80, 0xBF
        if self._in(b, 0x00, 0x7F):
            self.out.append(e)
        elif self._in(b, 0xC2, 0xDF):
            self.need, self.cp = 1, e & 0x1F
        elif self._in(b, 0xE0, 0xEF):
            self.need, self.cp = 2, e & 0x0F
            if self._in(b, 0xE0, 0xE0):
                self.lo = 0xA0
            elif self._in(b, 0xED, 0xED):
                self.hi = 0x9F
        elif self._in(b, 0xF0, 0xF4):
            self.need, self.cp = 3, e & 0x07
            if self._in(b, 0xF0, 0xF0):
                self.lo = 0x90
            elif self._in(b, 0xF4, 0xF4):
                self.hi = 0x8F
        else:
            self.out.append(0xFFFD)


def path_bytes(ctx, job, box):
    plan = job.params['plan']      # list of ('b', k) / ('m', code)
    prog, L = G['prog'], G['L']
    eng = Engine(prog, ctx)
    box['eng'] = eng
    rec = Recorder()
    eng.py_listeners['Rec'] = rec
    ses = Session(eng, L, listener='Rec')
    fed = []
    def hook(args):
        # observe what ByteParser hands to the recogniser; the recogniser itself is C03's subject
        if type(deref_all(args[1])) in (Str, SChoice):
            fed.append(stdlib.as_str_nofork(args[1]))
            return ('skip', UNIT)
        return None
    eng.call_hooks['>::feed'] = hook
    ses.ensure_bparser()
    fed.clear()
    ref = RefDecoder(ctx)
    expected = []
    steps = []
    utf8 = True
    outcome, msg = 'ok', None
    nb = 0
    assumed_away = False
    try:
        for kind, arg in plan:
            if kind == 'm':
                changes_mode = (arg == '@' and utf8) or (arg in ('G', '8') and not utf8)
                if ref.pending() and changes_mode:
                    # leaving UTF-8 mode with an unfinished sequence pending: not fixed by the statement.
                    # Re-selecting the current mode (or an unknown code) is not a switch: nothing may be dropped.
                    assumed_away = True
                    break
                steps.append(['select_other_charset', arg])
                ses.step(['select_other_charset', arg])
                if arg == '@':
                    utf8 = False
                elif arg in ('G', '8'):
                    utf8 = True
                continue
            bs = []
            for _ in range(arg):
                b = ctx.bvvar('b%d' % nb, 8)
                nb += 1
                bs.append(b)
            steps.append(['feed_bytes', bs])
            ses.feed_bytes([Int('u8', b) for b in bs])
            for b in bs:
                if utf8:
                    ref.push(b)
                else:
                    ref.out.append(z3.ZeroExt(24, b))
    except Panic as e:
        outcome, msg = 'panic', str(e)

    def jsteps(model):
        out = []
        for s in steps:
            if s[0] == 'feed_bytes':
                out.append(['feed_bytes', [model.eval(b, model_completion=True).as_long() for b in s[1]]])
            else:
                out.append(s)
        return out

    def scenario(model):
        """Native confirmation without a hook inside the crate: the real ByteParser fed the bytes must
        produce the same listener events as the real char Parser fed the characters the engine says
        ByteParser hands over (same mode switches)."""
        from .. import harness as H
        sc = {'listener': 'rec', 'steps': [['byte_parser']] + jsteps(model)}
        if outcome == 'panic':
            return sc, {'ok': False, 'panic': msg, 'out': []}
        ev = Ev(model)
        bsteps = [['parser']]
        k = 0
        for st in steps:
            if st[0] == 'select_other_charset':
                if st[1] == '@':
                    bsteps.append(['set_use_utf8', False])
                elif st[1] in ('G', '8'):
                    bsteps.append(['set_use_utf8', True])
            else:
                cps = [ev.int(c) for c in fed[k].c] if k < len(fed) else []
                k += 1
                bsteps.append(['feed_cps', cps])
        pred = H.native('dev').run({'listener': 'rec', 'steps': bsteps})
        return sc, {'ok': pred.get('ok'), 'out': pred.get('out'), 'panic': pred.get('panic')}

    def describe(model):
        ev = Ev(model)
        got = [[ev.int(c) for c in s.c] for s in fed]
        return {'steps': jsteps(model), 'handed_to_recogniser': got,
                'expected_code_points': [ev.int(c) if type(c) is not int else c for c in ref.out],
                'outcome': outcome if outcome == 'ok' else 'panic: ' + str(msg)}

    if assumed_away:
        return Check(True, scenario, describe, label='mode switch with a pending sequence (outside the statement)')
    if outcome == 'panic':
        return Check(False, scenario, describe, outcome='panic', label='ByteParser::feed panics: %s' % msg)
    got = []
    for s in fed:
        got.extend(s.c)
    exp = ref.out
    if len(got) != len(exp):
        return Check(False, scenario, describe,
                     label='the recogniser was handed %d characters, a conforming streaming decoder yields %d '
                           '(dropped, duplicated or prematurely flushed input)' % (len(got), len(exp)))
    ok = True
    for a, b in zip(got, exp):
        ok = bool_and(ok, int_eq(a, b))
    return Check(ok, scenario, describe, label='decoded characters differ from a conforming streaming UTF-8 decoder')


def compositions(n):
    if n == 0:
        return [[]]
    out = []
    for first in range(1, n + 1):
        for rest in compositions(n - first):
            out.append([first] + rest)
    return out


def jobs(tier):
    js = []
    nmax = 4 if tier == 'quick' else 5
    for n in range(1, nmax + 1):
        for comp in compositions(n):
            if n == nmax and comp not in ([n], [1, n - 1], [n - 1, 1], [2, n - 2], [1, 1, n - 2]):
                continue
            plan = [('b', k) for k in comp]
            js.append(Job('utf8/' + '+'.join(map(str, comp)), path_bytes, plan=plan, prop=PROP))
    js.append(Job('empty', path_bytes, plan=[('b', 0), ('b', 1), ('b', 0)], prop=PROP))
    sw = [[('m', '@'), ('b', 2)], [('b', 1), ('m', '@'), ('b', 2)], [('m', '@'), ('b', 1), ('m', 'G'), ('b', 2)],
          [('b', 2), ('m', '@'), ('b', 1), ('m', '8'), ('b', 2)], [('m', 'x'), ('b', 2)], [('m', '@'), ('b', 1), ('m', 'x'), ('b', 1)],
          [('b', 2), ('m', 'G'), ('b', 2)], [('b', 1), ('m', '8'), ('b', 2)], [('b', 2), ('m', 'x'), ('b', 1)],
          [('m', '@'), ('b', 1), ('m', '@'), ('b', 1)], [('m', '@'), ('m', 'G'), ('b', 3)], [('b', 3)],
          [('m', '@'), ('b', 1), ('m', '8'), ('b', 3)]]
    for i, plan in enumerate(sw):
        js.append(Job('switch/%d' % i, path_bytes, plan=plan, prop=PROP))
    return js


REPS = [0x00, 0x41, 0x7f, 0x80, 0x8f, 0x90, 0x9f, 0xa0, 0xbb, 0xbf, 0xc0, 0xc1, 0xc2, 0xdf, 0xe0, 0xe1, 0xec, 0xed,
        0xee, 0xef, 0xf0, 0xf1, 0xf3, 0xf4, 0xf5, 0xff]


def prelude(info):
    """Validate the engine's encoding_rs summaries against the real crate: every byte string of length
    <= 3 over the byte-class representatives through the one-shot API and through the streaming API split
    at every point (ample capacity), and the streaming model with destination capacities 0..9 after each
    kind of held prefix (the OutputFull / early-stop behaviour)."""
    prog = G['prog']
    binary = G['bins']['dev']
    cases = []
    for n in (1, 2, 3):
        for t in itertools.product(REPS, repeat=n):
            cases.append(list(t))
    lines = [json.dumps(c) for c in cases]
    stream_cases = []
    for c in cases:
        if len(c) >= 2:
            for k in range(1, len(c)):
                stream_cases.append([c[:k], c[k:]])
    lines += [json.dumps({'chunks': sc}) for sc in stream_cases]
    cap_cases = []
    for first in ([], [0xE2], [0xE2, 0x82], [0xF0, 0x9F, 0x98], [0xC3]):
        for n in (1, 2):
            for t in itertools.product(REPS, repeat=n):
                for cap in (0, 1, 2, 3, 4, 5, 6, 7, 9):
                    if n == 2 and cap in (1, 2, 5):
                        continue
                    cap_cases.append(([first, list(t)] if first else [list(t)], ([12, cap] if first else [cap])))
    lines += [json.dumps({'chunks': ch, 'caps': cp}) for ch, cp in cap_cases]
    p = subprocess.run([binary, 'decode'], input='\n'.join(lines) + '\n', stdout=subprocess.PIPE, text=True, check=True)
    outs = [json.loads(l) for l in p.stdout.strip().split('\n')]
    eng = Engine(prog, Ctx())
    bad = []
    for c, o in zip(cases, outs[:len(cases)]):
        bs = [Int('u8', b) for b in c]
        b2 = bs[3:] if c[:3] == [0xEF, 0xBB, 0xBF] else bs
        chars, _ = stdlib.utf8_decode(eng, b2)
        if list(chars) != o:
            bad.append('one-shot %r: summary %r, encoding_rs %r' % (c, chars, o))
    o2 = outs[len(cases):len(cases) + len(stream_cases)]
    for sc, o in zip(stream_cases, o2):
        pend = []
        res = []
        for ch in sc:
            room = 3 + 3 * (len(ch) + len(pend))
            chars, pend, _, _, _ = stdlib.ers_stream_decode(eng, pend, [Int('u8', b) for b in ch], room, False)
            res.append(list(chars))
        if res != o:
            bad.append('streaming %r: model %r, encoding_rs %r' % (sc, res, o))
    o3 = outs[len(cases) + len(stream_cases):]
    for (chs, caps), o in zip(cap_cases, o3):
        pend = []
        res = []
        try:
            for ch, cap in zip(chs, caps):
                chars, pend, result, read, _ = stdlib.ers_stream_decode(eng, pend, [Int('u8', b) for b in ch], cap, False)
                res.append({'cps': list(chars), 'read': read, 'full': bool(result)})
        except Panic:
            res.append({'panic': True})
        nat = [({k: x[k] for k in ('cps', 'read', 'full')} if 'cps' in x else x) for x in o]
        # the allocator may hand out more capacity than requested; only compare when it did not
        if any('cap' in x and x['cap'] != cp for x, cp in zip(o, caps)):
            continue
        if res != nat:
            bad.append('small destination %r caps %r: model %r, encoding_rs %r' % (chs, caps, res, nat))
    info['encoding_rs_summary_cases_checked'] = len(cases) + len(stream_cases) + len(cap_cases)
    return bad[:5]


META = {
    'functions': ['ByteParser::feed', 'ByteParser::select_other_charset', 'ByteParser::new', 'Parser::feed (observed at its argument)',
                  'Parser::set_use_utf8'],
    'bounds': 'all byte strings of total length 1..4 (thorough 5) with every byte symbolic, for every composition into '
              'chunks (incl. empty chunks), plus six mode-switch plans (@, G, 8, unknown) between chunks',
    'outside': 'longer streams that are not concatenations of covered ones with an empty carry-over; leaving UTF-8 mode while '
               'an unfinished sequence is pending; the encoding_rs summary is validated on all strings of length <= 3 over '
               '26 byte-class representatives, one-shot and streaming, not proved',
}
