"""The operation sweep shared by C01, C09, C10, C17: every listener method of Screen plus resize and
display, each with symbolic arguments ({absent} U 0..=9999 for numeric ones)."""
import z3

from ..values import *
from ..state import slice_u32, MODES
from ..symstate import sym_opt_u32, bvv

NOARG = ['alignment_display', 'reset', 'index', 'linefeed', 'reverse_index', 'set_tab_stop', 'save_cursor',
         'restore_cursor', 'shift_out', 'shift_in', 'bell', 'backspace', 'tab', 'cariage_return', 'display']
ONEOPT = ['insert_characters', 'cursor_up', 'cursor_down', 'cursor_forward', 'cursor_back', 'cursor_down1',
          'cursor_up1', 'cursor_to_column', 'insert_lines', 'delete_lines', 'delete_characters',
          'erase_characters', 'cursor_to_line', 'clear_tab_stop']
TWOOPT = ['cursor_position', 'set_margins']
SELECT = ['erase_in_display', 'erase_in_line', 'report_device_attributes']
DRAW_REPS = {'narrow': 'Z', 'wide': 'コ', 'combining': '̈', 'zw': '​', 'nul': '\x00'}


def sym_u32(ctx, name, hi=9999):
    v = ctx.bvvar(name, 32)
    ctx.assume(z3.ULE(v, hi))
    return Int('u32', v)


def mode_arg(ctx, name, which):
    """A mode number for set_mode/reset_mode: one of the supported ones (by its unshifted number when
    private), or an arbitrary other number."""
    if which == 'any':
        return sym_u32(ctx, name)
    num, private = which
    return Int('u32', num)


def ops(tier, cols, lines):
    """[(label, op name, argmaker(ctx) -> [args])]"""
    out = []
    for n in NOARG:
        out.append((n, n, lambda ctx: []))
    for n in ONEOPT:
        out.append((n, n, lambda ctx: [sym_opt_u32(ctx, 'a')]))
    for n in TWOOPT:
        out.append((n, n, lambda ctx: [sym_opt_u32(ctx, 'a'), sym_opt_u32(ctx, 'b')]))
    for n in SELECT:
        out.append((n, n, lambda ctx: [sym_opt_u32(ctx, 'a'), NONE]))
    for cls, ch in DRAW_REPS.items():
        out.append(('draw/' + cls, 'draw', (lambda c: (lambda ctx: [Str.of(c)]))(ch)))
    out.append(('draw/two', 'draw', lambda ctx: [Str.of('Zコ')]))
    # modes: every supported mode in both spellings + an arbitrary number, SM and RM
    for op in ('set_mode', 'reset_mode'):
        for mname, shifted in MODES.items():
            if shifted >= 32 and shifted % 32 == 0:
                out.append(('%s/?%s' % (op, mname), op, (lambda v: (lambda ctx: [slice_u32([v >> 5]), True]))(shifted)))
            out.append(('%s/%s' % (op, mname), op, (lambda v: (lambda ctx: [slice_u32([v]), False]))(shifted)))
        out.append(('%s/any' % op, op, lambda ctx: [slice_u32([sym_u32(ctx, 'm0')]), ctx.boolvar('private')]))
        if tier == 'thorough':
            out.append(('%s/any2' % op, op, lambda ctx: [slice_u32([sym_u32(ctx, 'm0'), sym_u32(ctx, 'm1')]), ctx.boolvar('private')]))
    for k in ((0, 1) if tier == 'quick' else (0, 1, 2)):
        out.append(('sgr/%d' % k, 'select_graphic_rendition',
                    (lambda kk: (lambda ctx: [slice_u32([sym_u32(ctx, 's%d' % i) for i in range(kk)])]))(k)))
    for lead in (38, 48):
        out.append(('sgr/%d;5;n' % lead, 'select_graphic_rendition',
                    (lambda ld: (lambda ctx: [slice_u32([Int('u32', ld), Int('u32', 5), sym_u32(ctx, 's0')])]))(lead)))
        out.append(('sgr/%d;2;r;g;b' % lead, 'select_graphic_rendition',
                    (lambda ld: (lambda ctx: [slice_u32([Int('u32', ld), Int('u32', 2), sym_u32(ctx, 's0'), sym_u32(ctx, 's1'),
                                                         sym_u32(ctx, 's2')])]))(lead)))
    if tier == 'thorough':
        out.append(('sgr/38;x;y;z', 'select_graphic_rendition',
                    lambda ctx: [slice_u32([Int('u32', 38), sym_u32(ctx, 's0'), sym_u32(ctx, 's1'), sym_u32(ctx, 's2')])]))
    out.append(('set_title', 'set_title', lambda ctx: [Str.of('t;\\')]))
    out.append(('set_icon_name', 'set_icon_name', lambda ctx: [Str.of('i')]))
    for code in 'B0UVx':
        for mode in '()':
            out.append(('define_charset/%s%s' % (mode, code), 'define_charset',
                        (lambda c, m: (lambda ctx: [Str.of(c), Str.of(m)]))(code, mode)))

    def resize_args(ctx):
        l = sym_opt_u32(ctx, 'rl', 1, lines + 2)
        c = sym_opt_u32(ctx, 'rc', 1, cols + 2)
        return [l, c]
    out.append(('resize', 'resize', resize_args))
    return out


# operations whose loops or clamps depend on the geometry: the ones worth repeating far from the small screens
GEOMETRY_OPS = {'alignment_display', 'reset', 'index', 'linefeed', 'reverse_index', 'restore_cursor', 'backspace', 'tab',
                'cariage_return', 'insert_characters', 'cursor_up', 'cursor_down', 'cursor_forward', 'cursor_back',
                'cursor_down1', 'cursor_up1', 'cursor_to_column', 'insert_lines', 'delete_lines', 'delete_characters',
                'erase_characters', 'cursor_to_line', 'cursor_position', 'set_margins', 'erase_in_display', 'erase_in_line',
                'draw', 'resize'}


def remote_ops(cols, lines):
    out = [spec for spec in ops('quick', cols, lines) if spec[1] in GEOMETRY_OPS and spec[0] not in ('draw/zw', 'draw/nul')]
    out += [spec for spec in ops('quick', cols, lines) if spec[0] in ('set_mode/?DECOM', 'reset_mode/?DECOM', 'set_mode/?DECSCNM')]
    return out
