"""C07 -- erase operations blank exactly the documented cells with the current rendition."""
import z3

from ..values import *
from ..engine import bool_and, bool_or, bool_not, to_z3bool
from ..harness import Job, Check, G
from ..state import slice_u32
from ..symstate import sym_opt_u32, opt_parts
from .common import *

PROP = 'C07'
OPS = ['erase_in_display', 'erase_in_line', 'erase_characters']
FINALS = {'J': 'erase_in_display', 'K': 'erase_in_line', 'X': 'erase_characters'}


def sel_value(o):
    """Selector / count as (is_some, 32-bit term)."""
    is_some, n = o
    nv = n.v if type(n) is Int else n
    if nv is None:
        nv = 0
    if isinstance(nv, int):
        nv = z3.BitVecVal(nv, 32)
    return to_z3bool(is_some), nv


def erased_pred(op, o, cx, cy, cols, lines):
    """-> (must(y,x), may(y,x)) z3 predicates over concrete cell coordinates: must be erased / may be
    erased (the single ambiguous cell: last column when the cursor is in the pending-wrap column)."""
    is_some, n = sel_value(o)
    F = z3.BoolVal(False)
    T = z3.BoolVal(True)
    pending = cx == cols   # python bool: cursor concretised

    def must(y, x):
        if op == 'erase_characters':
            cnt = z3.If(z3.And(is_some, n != 0), n, z3.BitVecVal(1, 32))
            if y != cy or x < cx:
                return F
            return z3.UGT(cnt, x - cx)
        how = z3.If(is_some, n, z3.BitVecVal(0, 32))
        line0 = (y == cy and x >= cx)
        line1 = (y == cy and x <= cx)
        if op == 'erase_in_line':
            return z3.Or(z3.And(how == 0, line0), z3.And(how == 1, line1), z3.And(how == 2, y == cy))
        # erase_in_display: an absent selector means 0
        return z3.Or(z3.And(how == 0, z3.Or(y > cy, line0)), z3.And(how == 1, z3.Or(y < cy, line1)),
                     how == 2, how == 3)

    def may(y, x):
        # With the cursor in the pending-wrap column (x == columns) "from the cursor" is an empty range:
        # EL 0 / ED 0 / ECH erase nothing on that row (the documented pyte behaviour).
        return F

    return must, may


def oracle(run, op, o, cols, lines):
    L = run.L
    pre, post = run.pre, run.post
    cx, cy = run.ss.cx, run.ss.cy
    _, _, attr, _ = cursor_of(L, pre)
    blank = blank_with(L, attr)
    must, may = erased_pred(op, o, cx, cy, cols, lines)
    cells_ok = True
    for y in range(lines):
        for x in range(cols):
            m = z3.simplify(must(y, x))
            my = z3.simplify(may(y, x))
            post_alts = cell_alts(L, post, y, x)
            is_blank = alts_is(post_alts, blank)
            unchanged = alts_equal(cell_alts(L, pre, y, x), post_alts)
            ok = z3.If(m, to_z3bool(is_blank),
                       z3.If(my, z3.Or(to_z3bool(is_blank), to_z3bool(unchanged)), to_z3bool(unchanged)))
            cells_ok = bool_and(cells_ok, ok)
    frame = bool_and(fields_same(L, pre, post, except_=('buffer', 'dirty', 'cursor')), cursor_same(L, pre, post))
    return [run.check(cells_ok, '%s: erased range or erased cell contents differ from the documented range/rendition' % op),
            run.check(frame, '%s changed state other than the grid' % op)]


def path_api(ctx, job, box):
    cols, lines = job.params['geom']
    op = job.params['op']
    opts = remote_opts(cols, lines) if job.params.get('remote') else {'cursor': 'pick'}
    run = GridRun(ctx, box, cols, lines, tabstops=1, savepoints=0, **opts)
    o = sym_opt_u32(ctx, 'a')
    if job.params.get('remote') and cols * lines > 400 and op == 'erase_characters':
        # very wide row: the count is one of a few values around the boundaries (chosen by the solver)
        is_some, nn = opt_parts(o)
        ctx.assume(z3.Or([nn.v == v for v in (0, 1, 2, 255, 256, 257, cols - 1, cols, cols + 1, 9999)]))
        o = some(Int('u32', ctx.concretize(nn.v))) if ctx.branch(to_z3bool(is_some)) else NONE
    if op == 'erase_characters':
        run.call(op, o)
    else:
        run.call(op, o, NONE)
    if run.outcome == 'panic':
        return run.panic_check()
    return oracle(run, op, opt_parts(o), cols, lines)


def path_csi(ctx, job, box):
    cols, lines = job.params['geom']
    fin = job.params['final']
    n = job.params['nparams']
    op = FINALS[fin]
    run = GridRun(ctx, box, cols, lines, cursor='pick', tabstops=1)
    ps = []
    for i in range(n):
        v = ctx.bvvar('p%d' % i, 32)
        ctx.assume(z3.ULE(v, 9999))
        ps.append(Int('u32', v))
    run.calls.append(('csi_dispatch', (Str.of(fin), slice_u32(ps), False)))
    try:
        run.eng.call_path('<T as ParserListener>::csi_dispatch', [run.ses.sref, Str.of(fin), slice_u32(ps), False],
                          {'T': 'Screen'})
    except Panic as e:
        run.outcome, run.msg = 'panic', str(e)
        return run.panic_check()
    o = (True, ps[0]) if n >= 1 else (False, 0)
    return oracle(run, op, o, cols, lines)


def path_parser(ctx, job, box):
    cols, lines = job.params['geom']
    fin = job.params['final']
    run = GridRun(ctx, box, cols, lines, cursor='pick', tabstops=0, titles='none', saved_columns='none', extra_mode=False)
    o = feed_csi(run, ctx, fin, job.params['ndigits'])
    if run.outcome == 'panic':
        return run.panic_check()
    return oracle(run, FINALS[fin], o, cols, lines)


def jobs(tier):
    js = []
    for fin in FINALS:
        for nd in (0, 1, 2):
            js.append(Job('parser/%s/%d/2x2' % (fin, nd), path_parser, final=fin, ndigits=nd, geom=(2, 2), prop=PROP))
    for g in geoms(tier):
        for op in OPS:
            js.append(Job('api/%s/%dx%d' % (op, g[0], g[1]), path_api, op=op, geom=g, prop=PROP))
    for g in remote_geoms(tier):
        for op in OPS:
            js.append(Job('remote/%s/%dx%d' % (op, g[0], g[1]), path_api, op=op, geom=g, remote=True, prop=PROP))
    for g in [(2, 1), (3, 2)] if tier == 'quick' else [(2, 1), (3, 2), (2, 3)]:
        for fin in FINALS:
            for n in (0, 1, 2):
                js.append(Job('csi/%s/%d/%dx%d' % (fin, n, g[0], g[1]), path_csi, final=fin, nparams=n, geom=g, prop=PROP))
    return js


META = {
    'functions': ['erase_in_display', 'erase_in_line', 'erase_characters', 'ParserListener::csi_dispatch'],
    'bounds': 'geometries (columns x lines) quick {1x1,2x1,1x2,3x2,2x3}, thorough + {4x3,3x4,5x1,1x4}; every cell and '
              'row symbolically present or absent, symbolic flags and colours per cell and for the cursor rendition; '
              'cursor at every position incl. pending-wrap; selector/count absent or 0..=9999; margins, modes symbolic',
    'outside': 'larger geometries; cell texts other than the distinct one-character markers; at the pending-wrap '
               'column the last cell may be either erased or kept by EL 0 / ED 0 / ECH (statement is silent)',
}
