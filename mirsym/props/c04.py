"""C04 -- printable text is rendered at the cursor with the current rendition.

(1) single character from a symbolic pre-state against a reference placement semantics written from
    the statement; (2) draw(c1 c2 [c3]) in one call == the same characters drawn one call each
    (relational, two runs of the implementation), which lifts (1) to strings by induction."""
import z3

from ..values import *
from ..engine import bool_and, bool_or, bool_not, to_z3bool
from ..harness import Job, Check, G
from ..symstate import sym_opt_u32, opt_parts
from .. import tables
from .common import *

PROP = 'C04'

REPS = {'narrow': 'Z', 'latin1': 'é', 'wide': 'コ', 'combining': '̈', 'zw': '​',
        'nul': '\x00', 'del': '\x7f', 'c1': '\x85'}


def classify(ch):
    cp = ord(ch)
    w = tables.width(cp)
    if w is None:
        w = 0
    return w, (w == 0 and tables.is_combining(cp))


def concretize_control(ctx, run):
    """Fork until margins, DECAWM, IRM are concrete; returns (top, bot, decawm, irm)."""
    ss = run.ss
    lines = ss.lines
    has = ctx.branch(to_z3bool(ss.m_some)) if ss.m_some is not False else False
    if has:
        top = ctx.concretize(ss.m_top)
        bot = ctx.concretize(ss.m_bot)
    else:
        top, bot = 0, lines - 1
    decawm = ctx.branch(to_z3bool(ss.mode_in['DECAWM']))
    irm = ctx.branch(to_z3bool(ss.mode_in['IRM']))
    return top, bot, decawm, irm


def reference_step(L, pre, ch, cols, lines, cx, cy, top, bot, decawm, irm, cls=None):
    """Reference semantics of drawing one character.  Returns (grid, nx, ny) where grid maps (y,x) to a
    list of alternatives (cond, cell) describing the expected observable cell.  `ch` is a Python
    character, or -- with cls=(width, combining) given -- a one-character Str that may be symbolic."""
    if cls is None:
        w, comb = classify(ch)
        chs = Str.of(ch)
    else:
        w, comb = cls
        chs = ch
    grid = {(y, x): cell_alts(L, pre, y, x) for y in range(lines) for x in range(cols)}
    if w == 0 and not comb:
        return grid, cx, cy
    _, _, attr, _ = cursor_of(L, pre)
    dflt = default_cell(L, pre)
    x, y = cx, cy
    if x == cols:
        if decawm:
            x = 0
            if y == bot:
                ng = dict(grid)
                for yy in range(top, bot):
                    for xx in range(cols):
                        ng[(yy, xx)] = grid[(yy + 1, xx)]
                for xx in range(cols):
                    ng[(bot, xx)] = [(True, dflt)]
                grid = ng
            else:
                y = min(y + 1, bot)
        elif w > 0:
            x = max(cols - w, 0)
    if irm and w > 0:
        ng = dict(grid)
        for xx in range(x, cols):
            src = xx - w
            ng[(y, xx)] = grid[(y, src)] if src >= x else [(True, dflt)]
        grid = ng
    if w >= 1:
        if x < cols:
            grid[(y, x)] = [(True, attr.with_field(L.char['data'], chs))]
        if w == 2 and x + 1 < cols:
            grid[(y, x + 1)] = [(True, attr.with_field(L.char['data'], Str(())))]
        x = min(x + w, cols)
    else:
        tgt = None
        if x > 0:
            tgt = (y, x - 1)
        elif y > 0:
            tgt = (y - 1, cols - 1)
        if tgt is not None:
            new = []
            for c, cell in grid[tgt]:
                d = cell.f[L.char['data']]
                if type(d) is not Str or not d.concrete():
                    raise Unmodelled('combining onto symbolic text')
                if cls is not None:
                    raise Unmodelled('combining symbolic character')
                nd = Str.of(tables.nfc(d.py()) + ch)
                new.append((c, cell.with_field(L.char['data'], nd)))
            grid[tgt] = new
    return grid, x, y


def grid_matches(L, post, grid, cols, lines):
    r = True
    for y in range(lines):
        for x in range(cols):
            r = bool_and(r, alts_equal(grid[(y, x)], cell_alts(L, post, y, x)))
            if r is False:
                return False
    return r


def path_single(ctx, job, box):
    cols, lines = job.params['geom']
    ch = job.params['ch']
    opts = remote_opts(cols, lines) if job.params.get('remote') else {'cursor': 'pick'}
    run = GridRun(ctx, box, cols, lines, tabstops=0, titles='none', saved_columns='none',
                  extra_mode=False, **opts)
    L = run.L
    top, bot, decawm, irm = concretize_control(ctx, run)
    run.call('draw', Str.of(ch))
    if run.outcome == 'panic':
        return run.panic_check()
    grid, nx, ny = reference_step(L, run.pre, ch, cols, lines, run.ss.cx, run.ss.cy, top, bot, decawm, irm)
    px, py, _, _ = cursor_of(L, run.post)
    cur_ok = bool_and(int_eq(px, nx), int_eq(py, ny))
    frame = bool_and(fields_same(L, run.pre, run.post, except_=('buffer', 'dirty', 'cursor')),
                     cursor_same(L, run.pre, run.post, except_=('x', 'y')))
    name = job.params['cls']
    return [run.check(grid_matches(L, run.post, grid, cols, lines),
                      'draw(%s): grid after drawing differs from the documented placement' % name),
            run.check(cur_ok, 'draw(%s): cursor after drawing differs from the documented advance/wrap' % name),
            run.check(frame, 'draw(%s) changed state other than grid, cursor position and dirty rows' % name)]


def path_symchar(ctx, job, box):
    """One *symbolic* character of a given width class: every code point of the class must be placed like
    its representative and stored unchanged (G0 = Latin-1 is active, so no code point is translated)."""
    from .c03 import valid_scalar
    cols, lines = job.params['geom']
    want = job.params['w']
    run = GridRun(ctx, box, cols, lines, cursor='pick', tabstops=0, titles='none', saved_columns='none',
                  extra_mode=False, cell_attrs='none')
    L = run.L
    top, bot, decawm, irm = concretize_control(ctx, run)
    c = ctx.bvvar('ch', 32)
    ctx.assume(valid_scalar(c))
    low = ctx.branch(z3.ULT(c, tables.SPLIT))
    wcond = None
    for cond, wv in tables.width_class_conds(c, low):
        if (wv or 0) == want:
            wcond = cond if wcond is None else z3.Or(wcond, cond)
    ctx.assume(wcond)
    if want == 0:
        ctx.assume(z3.Not(tables.combining_cond(c, low)))
    chs = Str((c,))
    run.call('draw', chs)
    if run.outcome == 'panic':
        return run.panic_check()
    grid, nx, ny = reference_step(L, run.pre, chs, cols, lines, run.ss.cx, run.ss.cy, top, bot, decawm, irm,
                                  cls=(want, False))
    px, py, _, _ = cursor_of(L, run.post)
    cur_ok = bool_and(int_eq(px, nx), int_eq(py, ny))
    return [run.check(grid_matches(L, run.post, grid, cols, lines),
                      'draw(any width-%d character): grid differs from the documented placement / the character '
                      'stored is not the one drawn' % want),
            run.check(cur_ok, 'draw(any width-%d character): cursor differs from the documented advance/wrap' % want)]


def path_pair(ctx, job, box):
    """draw(s) in one call vs one call per character: same observable result."""
    cols, lines = job.params['geom']
    s = job.params['s']
    opts = dict(cursor='pick', tabstops=0, titles='none', saved_columns='none', extra_mode=False)
    run = GridRun(ctx, box, cols, lines, **opts)
    L = run.L
    run.call('draw', Str.of(s))
    # second run of the implementation from the identical symbolic pre-state
    from ..state import Session
    ses2 = Session(run.eng, L, screen=run.pre)
    out2 = 'ok'
    try:
        for ch in s:
            ses2.op('draw', Str.of(ch))
    except Panic as e:
        out2 = 'panic'
    if run.outcome == 'panic' or out2 == 'panic':
        if run.outcome == out2:
            # both panic: reported by the single-character family; here only the relation is judged
            return run.check(True, 'both panic')
        return Check(False, run.scenario, run.describe, outcome='panic',
                     label='draw(%r) in one call %s but character by character %s' % (s, run.outcome, out2))
    a, b = run.post, ses2.screen
    same_grid = grid_same_except(L, a, b, cols, lines, set())
    rest = bool_and(fields_same(L, a, b, except_=('buffer', 'dirty')), True)
    return [run.check(bool_and(same_grid, rest),
                      'draw of a %d-character string differs from drawing its characters one call each '
                      '(a character was dropped, duplicated or placed differently)' % len(s))]


def jobs(tier):
    js = []
    gs = [(1, 1), (2, 1), (1, 2), (3, 2), (2, 3)] if tier == 'quick' else [(1, 1), (2, 1), (1, 2), (3, 2), (2, 3), (4, 2), (3, 3)]
    for g in gs:
        for cls, ch in REPS.items():
            js.append(Job('single/%s/%dx%d' % (cls, g[0], g[1]), path_single, ch=ch, cls=cls, geom=g, prop=PROP))
    for g in remote_geoms(tier):
        for cls in ('narrow', 'wide', 'combining'):
            js.append(Job('remote/%s/%dx%d' % (cls, g[0], g[1]), path_single, ch=REPS[cls], cls=cls, geom=g, remote=True,
                          prop=PROP))
    for g in ([(2, 1)] if tier == 'quick' else [(2, 1), (2, 2), (3, 1)]):
        for w in (1, 2, 0):
            js.append(Job('symchar/w%d/%dx%d' % (w, g[0], g[1]), path_symchar, w=w, geom=g, prop=PROP))
    pg = [(2, 1), (2, 2)] if tier == 'quick' else [(2, 1), (2, 2), (3, 2), (1, 2)]
    classes = ['narrow', 'wide', 'combining', 'zw', 'nul']
    for g in pg:
        for c1 in classes:
            for c2 in classes:
                js.append(Job('pair/%s+%s/%dx%d' % (c1, c2, g[0], g[1]), path_pair, s=REPS[c1] + REPS[c2], geom=g, prop=PROP))
    if tier == 'thorough':
        for g in [(2, 1), (2, 2)]:
            for c1 in ['narrow', 'wide', 'nul']:
                for c2 in ['narrow', 'combining', 'zw']:
                    for c3 in ['narrow', 'wide']:
                        js.append(Job('triple/%s+%s+%s/%dx%d' % (c1, c2, c3, g[0], g[1]), path_pair,
                                      s=REPS[c1] + REPS[c2] + REPS[c3], geom=g, prop=PROP))
    return js


META = {
    'functions': ['draw', 'draw::{closure#0}', 'insert_characters', 'linefeed', 'index', 'cariage_return', 'cursor_down',
                  'CharOpts::clone_with_data', 'default_char'],
    'bounds': 'geometries quick {1x1,2x1,1x2,3x2,2x3} thorough +{4x2,3x3}; every cell/row present or absent, symbolic '
              'renditions, cursor at every position incl. pending-wrap, every region, DECAWM/IRM/LNM/DECSCNM symbolic; one '
              'character per class {narrow ASCII, Latin-1, double-width, combining, other zero-width, NUL, DEL, C1}; '
              'strings of 2 (thorough 3) characters over the classes compared with per-character drawing; G0=Latin-1 active',
    'outside': 'for the multi-character and remote families other representatives of each width class (a single symbolic '
               'character of width 1, 2 or 0 -- any code point of that class by the real unicode-width tables -- is '
               'covered on 2x1, thorough + 2x2, 3x1); geometries other than the listed ones and the sparsely written remote '
               'screens (quick 9x6; thorough + 258x2, 2x258, 17x9); strings longer than 3; charset translation (C20)',
}
