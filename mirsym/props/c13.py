"""C13 -- ICH/DCH shift only the rest of the cursor row and lose what crosses the edge."""
import z3

from ..values import *
from ..engine import bool_and, bool_or, bool_not, to_z3bool
from ..harness import Job, Check, G
from ..state import slice_u32
from ..symstate import sym_opt_u32, opt_parts
from .common import *

PROP = 'C13'


def edit_oracle(L, pre, post, op, n_opt, cx, cy, cols, lines):
    """Single ICH/DCH step on the observable grid: -> z3 Bool."""
    is_some, n = opt_parts(n_opt)
    nv = n.v if type(n) is Int else n
    if nv is None:
        nv = 0
    if isinstance(nv, int):
        nv = z3.BitVecVal(nv, 32)
    B = lambda v: z3.BitVecVal(v, 32)
    cnt = z3.If(z3.And(to_z3bool(is_some), nv != 0), nv, B(1))
    d = default_cell(L, post)
    ok = True
    cs = z3.simplify(cnt)
    kc = cs.as_long() if z3.is_bv_value(cs) else None
    for y in range(lines):
        for x in range(cols):
            post_alts = cell_alts(L, post, y, x)
            if y != cy or x < cx:
                ok = bool_and(ok, alts_equal(cell_alts(L, pre, y, x), post_alts))
                continue
            blank = to_z3bool(alts_is(post_alts, d))
            exp = blank
            if kc is not None:
                # concrete count: the one source cell (or a blank)
                src = x - kc if op == 'insert_characters' else x + kc
                if (op == 'insert_characters' and src >= cx) or (op != 'insert_characters' and src < cols):
                    exp = to_z3bool(alts_equal(cell_alts(L, pre, y, src), post_alts))
            elif op == 'insert_characters':
                # post[x] = pre[x-k] if x-k >= cx
                for k in range(1, x - cx + 1):
                    exp = z3.If(cnt == k, to_z3bool(alts_equal(cell_alts(L, pre, y, x - k), post_alts)), exp)
            else:
                for k in range(1, cols - x):
                    exp = z3.If(cnt == k, to_z3bool(alts_equal(cell_alts(L, pre, y, x + k), post_alts)), exp)
            ok = bool_and(ok, exp)
    return ok


def frame(L, pre, post):
    return bool_and(fields_same(L, pre, post, except_=('buffer', 'dirty')), True)


def path_single(ctx, job, box):
    cols, lines = job.params['geom']
    op = job.params['op']
    opts = remote_opts(cols, lines) if job.params.get('remote') else {'cursor': 'pick'}
    if job.params.get('remote'):
        # around the cursor too, so that something is there to be shifted
        opts['buffer'] = ('sparse', opts['buffer'][1] + [(y, x) for (x, y) in opts['cursor'][1] if x < cols][:8])
    run = GridRun(ctx, box, cols, lines, tabstops=1, **opts)
    n = sym_opt_u32(ctx, 'a')
    if cols > 40:
        # a very wide row: the count is one of a few values around the interesting boundaries (still chosen
        # by the solver, one path each), which keeps the per-cell oracle small
        is_some, nn = opt_parts(n)
        ctx.assume(z3.Or([nn.v == v for v in (0, 1, 2, 255, 256, 257, cols - 1, cols, cols + 1, 9999)]))
        if ctx.branch(to_z3bool(is_some)):
            n = some(Int('u32', ctx.concretize(nn.v)))
        else:
            n = NONE
    run.call(op, n)
    if run.outcome == 'panic':
        return run.panic_check()
    L = run.L
    ok = edit_oracle(L, run.pre, run.post, op, n, run.ss.cx, run.ss.cy, cols, lines)
    return [run.check(ok, '%s: row after the edit differs from the documented splice' % op),
            run.check(frame(L, run.pre, run.post), '%s changed the cursor or other state' % op)]


FIRST = ['insert_characters', 'delete_characters', 'erase_in_line', 'erase_characters', 'irm_draw', 'draw', 'resize']


def do_first(ctx, run, kind, idx):
    if kind in ('insert_characters', 'delete_characters', 'erase_characters'):
        run.call(kind, sym_opt_u32(ctx, 'n%d' % idx))
    elif kind == 'erase_in_line':
        run.call(kind, sym_opt_u32(ctx, 'n%d' % idx, 0, 3), NONE)
    elif kind in ('irm_draw', 'draw'):
        run.call('draw', Str.of('Z'))
    elif kind == 'resize':
        # a narrower (or wider) screen: what the shrink cut off must not come back through DCH
        cols = run.ctx.concretize(bv(scr(run.L, run.ses.screen, 'columns')))
        run.call('resize', NONE, sym_opt_u32(ctx, 'rc%d' % idx, 1, cols + 1))


def path_seq(ctx, job, box):
    """first ops (any of FIRST) then ICH/DCH: the last step must obey the single-step rule relative to
    what was visible before it -- i.e. nothing discarded earlier may come back."""
    cols, lines = job.params['geom']
    seq = job.params['seq']
    last = job.params['last']
    modes = {'IRM': True if 'irm_draw' in seq else 'sym', 'DECAWM': 'sym', 'DECOM': 'sym', 'LNM': False,
             'DECSCNM': 'sym', 'DECTCEM': True, 'DECCOLM': False}
    run = GridRun(ctx, box, cols, lines, cursor='pick', tabstops=0, modes=modes, extra_mode=False,
                  titles='none', saved_columns='none')
    L = run.L
    for i, k in enumerate(seq):
        do_first(ctx, run, k, i)
        if run.outcome == 'panic':
            return run.panic_check()
    mid = run.ses.screen
    mx, my, _, _ = cursor_of(L, mid)
    cx = ctx.concretize(bv(mx))
    cy = ctx.concretize(bv(my))
    cols = ctx.concretize(bv(scr(L, mid, 'columns')))
    lines = ctx.concretize(bv(scr(L, mid, 'lines')))
    n = sym_opt_u32(ctx, 'last')
    run.call(last, n)
    if run.outcome == 'panic':
        return run.panic_check()
    ok = edit_oracle(L, mid, run.post, last, n, cx, cy, cols, lines)
    return [run.check(ok, 'after %s, %s shows content that is not the documented splice of what was visible '
                          '(a discarded or hidden cell reappeared)' % ('+'.join(seq), last))]


def path_parser(ctx, job, box):
    cols, lines = job.params['geom']
    fin = job.params['final']
    op = {'@': 'insert_characters', 'P': 'delete_characters'}[fin]
    run = GridRun(ctx, box, cols, lines, cursor='pick', tabstops=0, titles='none', saved_columns='none', extra_mode=False)
    is_some, n = feed_csi(run, ctx, fin, job.params['ndigits'])
    if run.outcome == 'panic':
        return run.panic_check()
    L = run.L
    ok = edit_oracle(L, run.pre, run.post, op, some(n), run.ss.cx, run.ss.cy, cols, lines)
    return [run.check(ok, 'CSI %s through the parser: row after the edit differs from the documented splice' % fin),
            run.check(frame(L, run.pre, run.post), 'CSI %s through the parser changed the cursor or other state' % fin)]


def jobs(tier):
    js = []
    for fin in '@P':
        for nd in (0, 1, 2):
            js.append(Job('parser/%s/%d/3x1' % (fin, nd), path_parser, final=fin, ndigits=nd, geom=(3, 1), prop=PROP))
    gs = [(1, 1), (2, 1), (3, 1), (3, 2)] if tier == 'quick' else [(1, 1), (2, 1), (3, 1), (4, 1), (3, 2), (5, 1)]
    for g in gs:
        for op in ('insert_characters', 'delete_characters'):
            js.append(Job('single/%s/%dx%d' % (op, g[0], g[1]), path_single, op=op, geom=g, prop=PROP))
    for g in ([(9, 2)] if tier == 'quick' else [(9, 2), (17, 3), (258, 2)]):
        for op in ('insert_characters', 'delete_characters'):
            js.append(Job('remote/%s/%dx%d' % (op, g[0], g[1]), path_single, op=op, geom=g, remote=True, prop=PROP))
    sg = [(2, 1), (3, 1)] if tier == 'quick' else [(2, 1), (3, 1), (4, 1), (3, 2)]
    for g in sg:
        for f in FIRST:
            for last in ('insert_characters', 'delete_characters'):
                js.append(Job('seq/%s>%s/%dx%d' % (f, last, g[0], g[1]), path_seq, seq=(f,), last=last, geom=g, prop=PROP))
    if tier == 'thorough':
        for g in [(2, 1), (3, 1)]:
            for f1 in FIRST[:5] + FIRST[6:]:
                for f2 in FIRST[:5] + FIRST[6:]:
                    for last in ('insert_characters', 'delete_characters'):
                        js.append(Job('seq/%s>%s>%s/%dx%d' % (f1, f2, last, g[0], g[1]), path_seq, seq=(f1, f2),
                                      last=last, geom=g, prop=PROP))
    return js


META = {
    'functions': ['insert_characters', 'delete_characters', 'erase_in_line', 'erase_characters', 'draw', 'default_char'],
    'bounds': 'rows of 1..3 (thorough 5) columns, every cell present/absent with distinct markers and symbolic '
              'renditions, cursor at every column incl. pending-wrap, counts absent or 0..=9999; sequences of one '
              '(thorough two) first edits from {ICH, DCH, EL, ECH, draw, IRM-draw, resize of the width} followed by ICH/DCH on the same row',
    'outside': 'wider rows other than the sparsely written remote ones (quick 9x2; thorough + 17x3, 258x2); sequences '
               'longer than 2 (thorough 3) edits',
}
