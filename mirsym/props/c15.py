"""C15 -- RIS returns the terminal to its power-on state.

(a) from an arbitrary symbolic state, reset() (and ESC c through escape_dispatch) yields, field for
    field, the state Screen::new(columns, lines) computes, except the saved-cursor stack; all rows dirty;
(b) non-interference: no operation other than restore_cursor (and resize's internal save/restore,
    which nets zero) reads the saved-cursor stack, so equal remaining fields give equal futures."""
import z3

from ..values import *
from ..engine import Engine, bool_and, bool_or, bool_not, to_z3bool
from ..harness import Job, Check, G
from ..state import Session, snapshot
from ..symstate import SymScreen, same
from .common import *
from . import sweep
from .c10 import run_calls

PROP = 'C15'


def path_reset(ctx, job, box):
    geom = job.params.get('geom')
    via = job.params['via']
    if geom:
        cols, lines = geom
        opts = dict(remote_opts(cols, lines), dirty='none') if job.params.get('remote') else {'cursor': 'pick'}
        run = GridRun(ctx, box, cols, lines, tabstops=2, savepoints=job.params.get('sp', 0),
                      sp_charsets='fixed', charset='sym', **opts)
    else:
        run = GridRun(ctx, box, None, None, buffer='one', tabstops=2, geom_max=(140, 6))
    L, eng = run.L, run.eng
    if via == 'api':
        run.call('reset')
    else:
        run.calls.append(('escape_dispatch', (Str.of('c'),)))
        try:
            eng.call_path('<T as ParserListener>::escape_dispatch', [run.ses.sref, Str.of('c')], {'T': 'Screen'})
        except Panic as e:
            run.outcome, run.msg = 'panic', str(e)
    if run.outcome == 'panic':
        return run.panic_check('reset panics: %s' % run.msg)
    post = run.post
    fresh = eng.call_path('Screen::new', [scr(L, run.pre, 'columns'), scr(L, run.pre, 'lines')])
    checks = []
    for name, i in L.screen.items():
        if name == 'savepoints':
            continue
        checks.append(run.check(same(post.f[i], fresh.f[i]),
                                'after RIS field `%s` differs from a newly constructed screen of the same size' % name))
    checks.append(run.check(same(post.f[L.screen['savepoints']], run.pre.f[L.screen['savepoints']]),
                            'RIS changed the saved-cursor stack'))
    return checks


def path_nonint(ctx, job, box):
    """O(S) and O(S with another saved-cursor stack) agree on everything but the stack."""
    cols, lines = job.params['geom']
    label, op, mk = job.params['opspec']
    run = GridRun(ctx, box, cols, lines, cursor='pick', tabstops=1, savepoints=1, sp_charsets='fixed',
                  titles='none', saved_columns='none', extra_mode=False)
    L = run.L
    s1 = run.pre
    s2 = s1.with_field(L.screen['savepoints'], VecV())
    args = mk(ctx)
    run.call(op, *args)
    o2, m2, post2, disp2 = run_calls(run.eng, L, s2, [(op, args)])
    if run.outcome != o2:
        return Check(False, run.scenario, run.describe, outcome='panic',
                     label='%s: panic behaviour depends on the saved-cursor stack' % label)
    if run.outcome == 'panic':
        return Check(True, run.scenario, run.describe, label='both panic')
    ok = fields_same(L, run.post, post2, except_=('savepoints',))
    return run.check(ok, '%s reads the saved-cursor stack: its result differs when only the stack differs' % label)


def jobs(tier):
    js = []
    gs = [(1, 1), (3, 2), (9, 1), (17, 2)] if tier == 'quick' else [(1, 1), (3, 2), (2, 3), (9, 1), (17, 2), (25, 1)]
    for g in gs:
        for via in ('api', 'esc_c'):
            js.append(Job('reset/%s/%dx%d' % (via, g[0], g[1]), path_reset, geom=g, via=via, prop=PROP))
    for g in ([(258, 2)] if tier == 'quick' else [(133, 1), (258, 2), (2, 258), (300, 3)]):
        js.append(Job('reset/api/remote/%dx%d' % g, path_reset, geom=g, via='api', remote=True, prop=PROP))
    js.append(Job('reset/api/3x2+savepoint', path_reset, geom=(3, 2), via='api', sp=1, prop=PROP))
    js.append(Job('reset/api/parametric', path_reset, geom=None, via='api', prop=PROP))
    ng = [(2, 1)] if tier == 'quick' else [(2, 1), (2, 2)]
    for g in ng:
        for spec in sweep.ops(tier, g[0], g[1]):
            if spec[1] in ('restore_cursor',) or spec[0].endswith('any2'):
                continue
            js.append(Job('nonint/%s/%dx%d' % (spec[0], g[0], g[1]), path_nonint, opspec=spec, geom=g, prop=PROP))
    return js


META = {
    'functions': ['reset', 'Screen::new', 'ParserListener::escape_dispatch', 'every operation of the sweep (non-interference)'],
    'bounds': 'reset from symbolic states on geometries {1x1,3x2,9x1,17x2} (thorough + {2x3,25x1}) with symbolic charset '
              'state, titles, modes, margins, tab stops, saved columns, saved cursors, and on a symbolic geometry '
              '1..=140 x 1..=6, and from sparsely written remote screens (258x2; thorough + 133x1, 2x258, 300x3); compared field for field with Screen::new executed in the same engine; non-interference '
              'of the saved-cursor stack for every sweep operation on 2x1 (thorough + 2x2)',
    'outside': 'continuations containing DECRC (excluded by the statement)',
}
