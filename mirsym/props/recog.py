"""Reference recogniser written from the grammar in the statement of C03 (independent of parser.rs),
running in lock-step with the implementation on the same symbolic characters: every classification
of a character is a `ctx.branch`, so implementation and reference are compared on each joint path."""
import z3

from ..values import *
from ..engine import bool_and, bool_or, bool_not, to_z3bool, int_eq
from ..symstate import same
from .. import stdlib

ESC, BEL, BS, HT, LF, VT, FF, CR, SO, SI, CAN, SUB = 0x1b, 7, 8, 9, 10, 11, 12, 13, 14, 15, 0x18, 0x1a
CSI_C1, OSC_C1, ST_C1 = 0x9b, 0x9d, 0x9c

ONE_PARAM = {'@': 'insert_characters', 'A': 'cursor_up', 'B': 'cursor_down', 'C': 'cursor_forward',
             'D': 'cursor_back', 'E': 'cursor_down1', 'F': 'cursor_up1', 'G': 'cursor_to_column',
             'L': 'insert_lines', 'M': 'delete_lines', 'P': 'delete_characters', 'X': 'erase_characters',
             'a': 'cursor_forward', 'd': 'cursor_to_line', 'e': 'cursor_down', 'g': 'clear_tab_stop',
             'J': 'erase_in_display', 'K': 'erase_in_line', 'c': 'report_device_attributes'}
TWO_PARAM = {'H': 'cursor_position', 'f': 'cursor_position', 'r': 'set_margins'}
LIST_PARAM = {'h': 'set_mode', 'l': 'reset_mode', 'm': 'select_graphic_rendition'}
ESC_FINAL = {'c': 'reset', 'D': 'index', 'E': 'linefeed', 'M': 'reverse_index', 'H': 'set_tab_stop',
             '7': 'save_cursor', '8': 'restore_cursor'}
C0_EVENT = {BEL: 'bell', BS: 'backspace', HT: 'tab', LF: 'linefeed', VT: 'linefeed', FF: 'linefeed',
            CR: 'cariage_return'}


class Ref:
    """State machine; feed one character (python int or z3 BV32) at a time."""

    def __init__(self, ctx, utf8):
        self.ctx = ctx
        self.utf8 = utf8            # python bool or z3 Bool
        self.events = []
        self.state = 'ground'
        self.assumed_away = False   # set when the input left the part of the grammar the statement fixes

    # -- helpers
    def is_(self, c, v):
        return self.ctx.branch(int_eq(c, v))

    def among(self, c, vals):
        """index of the value c equals, or None."""
        for v in vals:
            if self.is_(c, v):
                return v
        return None

    def ev(self, name, *args):
        self.events.append((name, tuple(args)))

    def text(self, c):
        self.ev('draw', Str((c,)))

    @property
    def ground(self):
        return self.state == 'ground'

    def feed(self, c):
        st = self.state
        ctx = self.ctx
        if st == 'ground':
            v = self.among(c, [ESC, CSI_C1, OSC_C1, BEL, BS, HT, LF, VT, FF, CR, SO, SI])
            if v is None:
                self.text(c)
            elif v == ESC:
                self.state = 'esc'
            elif v == CSI_C1:
                self.begin_csi()
            elif v == OSC_C1:
                self.state = 'osc_code'
            elif v in C0_EVENT:
                self.ev(C0_EVENT[v])
            else:  # SO / SI: only in 8-bit mode
                if not ctx.branch(self.utf8):
                    self.ev('shift_out' if v == SO else 'shift_in')
            return
        if st == 'esc':
            v = self.among(c, [ord('['), ord(']'), ord('#'), ord('%'), ord('('), ord(')')] + [ord(k) for k in ESC_FINAL])
            if v == ord('['):
                self.begin_csi()
            elif v == ord(']'):
                self.state = 'osc_code'
            elif v == ord('#'):
                self.state = 'esc_hash'
            elif v == ord('%'):
                self.state = 'esc_percent'
            elif v == ord('('):
                self.state = 'esc_g0'
            elif v == ord(')'):
                self.state = 'esc_g1'
            else:
                if v is not None:
                    self.ev(ESC_FINAL[chr(v)])
                self.state = 'ground'
            return
        if st == 'esc_hash':
            if self.is_(c, ord('8')):
                self.ev('alignment_display')
            self.state = 'ground'
            return
        if st == 'esc_percent':
            self.state = 'ground'     # the argument is consumed; the char parser has nothing to switch
            return
        if st in ('esc_g0', 'esc_g1'):
            if not ctx.branch(self.utf8):
                self.ev('define_charset', Str((c,)), Str.of('(' if st == 'esc_g0' else ')'))
            self.state = 'ground'
            return
        if st == 'csi':
            self.feed_csi(c)
            return
        if st == 'csi_dollar':
            self.state = 'ground'
            return
        if st == 'osc_code':
            v = self.among(c, [ord('R'), ord('P')])
            if v is not None:
                # Linux console palette sequences (reset / set palette) have no terminator: the
                # recogniser returns to ground right after the code (pyte; C03's own rationale names
                # "OSC P swallows all following output" as the defect)
                self.state = 'ground'
                return
            self.osc_code = c
            self.osc_payload = []
            self.state = 'osc'
            return
        if st == 'osc':
            v = self.among(c, [BEL, ST_C1, ESC])
            if v == ESC:
                self.state = 'osc_esc'
            elif v is not None:
                self.end_osc()
            else:
                self.osc_payload.append(c)
            return
        if st == 'osc_esc':
            if self.is_(c, ord('\\')):
                self.end_osc()
            else:
                self.osc_payload.append(ESC)
                self.osc_payload.append(c)
                self.state = 'osc'
            return
        raise Unmodelled('reference state ' + st)

    # -- CSI
    def begin_csi(self):
        self.state = 'csi'
        self.params = []
        self.private = False
        self.cur = []      # digit values (python ints or z3 BV32 of the digit character)

    def cur_value(self):
        """Decimal value of the collected digits saturated at 9999, as Int u32 (empty = 0)."""
        if not self.cur:
            return Int('u32', 0)
        if all(type(d) is int for d in self.cur):
            v = 0
            for d in self.cur:
                v = v * 10 + (d - 48)
            return Int('u32', min(v, 9999))
        acc = z3.BitVecVal(0, 32)
        sat = z3.BoolVal(False)
        for d in self.cur:
            dv = (d - 48) if type(d) is not int else z3.BitVecVal(d - 48, 32)
            nxt = acc * 10 + dv
            sat = z3.Or(sat, z3.UGT(nxt, 9999))
            acc = z3.If(z3.UGT(nxt, 9999), z3.BitVecVal(9999, 32), nxt)
        return Int('u32', acc)

    def feed_csi(self, c):
        ctx = self.ctx
        v = self.among(c, [ord('?'), BEL, BS, HT, LF, VT, FF, CR, 0x20, ord('>'), CAN, SUB, ord('$'), ord(';')])
        if v == ord('?'):
            self.private = True
            return
        if v in C0_EVENT:
            self.ev(C0_EVENT[v])
            return
        if v in (0x20, ord('>')):
            return
        if v in (CAN, SUB):
            self.text(c)          # documented pyte behaviour: the abort character is handed to draw()
            self.state = 'ground'
            return
        if v == ord('$'):
            self.state = 'csi_dollar'
            return
        isdigit = bool_and(_uge(c, 48), _ule(c, 57))
        if v is None and ctx.branch(isdigit):
            self.cur.append(c)
            return
        self.params.append(self.cur_value())
        self.cur = []
        if v == ord(';'):
            return
        # final byte
        fin = self.among(c, [ord(k) for k in list(ONE_PARAM) + list(TWO_PARAM) + list(LIST_PARAM)])
        self.state = 'ground'
        if fin is None:
            return
        k = chr(fin)
        ps = self.params
        if k in ONE_PARAM:
            self.ev(ONE_PARAM[k], some(ps[0]))
        elif k in TWO_PARAM:
            self.ev(TWO_PARAM[k], some(ps[0]), some(ps[1]) if len(ps) > 1 else NONE)
        elif k == 'm':
            self.ev('select_graphic_rendition', ('list', tuple(ps)))
        else:
            self.ev(LIST_PARAM[k], ('list', tuple(ps)), self.private)

    # -- OSC
    def end_osc(self):
        self.state = 'ground'
        code = self.osc_code
        pay = self.osc_payload
        # the statement defines the payload as the text after the first ';' directly following the code
        if pay:
            if not self.is_(pay[0], ord(';')):
                self.assumed_away = True
                return
            pay = pay[1:]
        v = self.among(code, [ord('0'), ord('1'), ord('2')])
        if v in (ord('0'), ord('1')):
            self.ev('set_icon_name', Str(tuple(pay)))
        if v in (ord('0'), ord('2')):
            self.ev('set_title', Str(tuple(pay)))


def _uge(c, v):
    if type(c) is int:
        return c >= v
    return z3.UGE(c, v)


def _ule(c, v):
    if type(c) is int:
        return c <= v
    return z3.ULE(c, v)


# --------------------------------------------------------------------------- event comparison

DROP_ARGS = {'erase_in_display': 1, 'erase_in_line': 1, 'report_device_attributes': 1}


def merge_draws(events):
    out = []
    for name, args in events:
        if name == 'draw' and out and out[-1][0] == 'draw':
            prev = stdlib.as_str_nofork(out[-1][1][0])
            cur = stdlib.as_str_nofork(args[0])
            out[-1] = ('draw', (Str(prev.c + cur.c),))
        else:
            if name in DROP_ARGS:
                args = args[:DROP_ARGS[name]]
            out.append((name, tuple(args)))
    return out


def val_same(a, b):
    if type(a) is tuple and a and a[0] == 'list':
        if not (type(b) is tuple and b and b[0] == 'list') or len(a[1]) != len(b[1]):
            return False
        r = True
        for x, y in zip(a[1], b[1]):
            r = bool_and(r, val_same(x, y))
        return r
    a = deref_all(a)
    b = deref_all(b)
    if type(a) is Enum and a.ty == 'Option':
        return stdlib.val_eq(None, a, b)
    return same(a, b)


def events_same(impl, ref):
    """-> (python bool / z3 Bool, first structural difference or None)"""
    a, b = merge_draws(impl), merge_draws(ref)
    if len(a) != len(b):
        return False, 'different number of events: implementation %s, reference %s' % ([n for n, _ in a], [n for n, _ in b])
    r = True
    for (n1, a1), (n2, a2) in zip(a, b):
        if n1 != n2 or len(a1) != len(a2):
            return False, 'event %s(%d args) vs reference %s(%d args)' % (n1, len(a1), n2, len(a2))
        for x, y in zip(a1, a2):
            r = bool_and(r, val_same(x, y))
    return r, None
