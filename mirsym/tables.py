"""Dependency tables extracted at run time from the real crates by `mt-replay tables`
(unicode-width's UnicodeWidthChar::width and unicode-normalization's is_combining_mark),
as maximal ranges over all Unicode scalar values."""
import bisect
import json
import os
import unicodedata
import z3

_W = None     # sorted list of (lo, hi, w) with w in {-1 (None), 0, 1, 2}
_C = None     # sorted list of (lo, hi)
_WLO = None
_CLO = None
_CLS = {}     # std character classes: name -> sorted [(lo, hi)]


def load(path):
    global _W, _C, _WLO, _CLO, _CLS
    with open(path) as f:
        d = json.load(f)
    _CLS = {k: [tuple(x) for x in v] for k, v in d.get('classes', {}).items()}
    _W = [tuple(x) for x in d['width']]
    _C = [tuple(x) for x in d['combining']]
    _WLO = [x[0] for x in _W]
    _CLO = [x[0] for x in _C]


def loaded():
    return _W is not None


def width(cp):
    i = bisect.bisect_right(_WLO, cp) - 1
    if i >= 0 and _W[i][0] <= cp <= _W[i][1]:
        w = _W[i][2]
        return None if w < 0 else w
    return None


def is_combining(cp):
    i = bisect.bisect_right(_CLO, cp) - 1
    return i >= 0 and _C[i][0] <= cp <= _C[i][1]


def char_class(name, cp):
    """std's char::<name> for a concrete code point / as a z3 condition for a symbolic one."""
    rs = _CLS.get(name)
    if rs is None:
        return None
    if isinstance(cp, int):
        i = bisect.bisect_right([r[0] for r in rs], cp) - 1
        return i >= 0 and rs[i][0] <= cp <= rs[i][1]
    return _in_ranges(cp, rs)


def _in_ranges(x, ranges):
    parts = []
    for lo, hi in ranges:
        if lo == hi:
            parts.append(x == lo)
        else:
            parts.append(z3.And(z3.UGE(x, lo), z3.ULE(x, hi)))
    if not parts:
        return z3.BoolVal(False)
    return z3.Or(parts)


SPLIT = 0x800


def width_class_conds(x, low=None):
    """[(cond, width-or-None)] mutually exclusive and exhaustive over scalar values (x: BV32).
    low=True/False restricts the tables to code points below/at-or-above SPLIT (the caller has already
    forked on that), which keeps the common formulas small."""
    by = {-1: [], 0: [], 2: []}
    for lo, hi, w in _W:
        if w in by:
            if low is True:
                if lo >= SPLIT:
                    continue
                hi = min(hi, SPLIT - 1)
            elif low is False:
                if hi < SPLIT:
                    continue
                lo = max(lo, SPLIT)
            by[w].append((lo, hi))
    cn = _in_ranges(x, by[-1])
    c0 = _in_ranges(x, by[0])
    c2 = _in_ranges(x, by[2])
    c1 = z3.Not(z3.Or(cn, c0, c2))
    return [(c1, 1), (c2, 2), (c0, 0), (cn, None)]


def combining_cond(x, low=None):
    rs = []
    for lo, hi in _C:
        if low is True:
            if lo >= SPLIT:
                continue
            hi = min(hi, SPLIT - 1)
        elif low is False:
            if hi < SPLIT:
                continue
            lo = max(lo, SPLIT)
        rs.append((lo, hi))
    return _in_ranges(x, rs)


_unstable = None


def nfc_unstable_ranges():
    """Ranges of single code points c with NFC(c) != c (Python's unicodedata; used only to exclude them)."""
    global _unstable
    if _unstable is None:
        rs = []
        start = None
        prev = None
        for cp in range(0x80, 0x110000):
            if 0xD800 <= cp <= 0xDFFF:
                continue
            if unicodedata.normalize('NFC', chr(cp)) != chr(cp):
                if start is None or cp != prev + 1:
                    if start is not None:
                        rs.append((start, prev))
                    start = cp
                prev = cp
        if start is not None:
            rs.append((start, prev))
        _unstable = rs
    return _unstable


def nfc_unstable_cond(x):
    return _in_ranges(x, nfc_unstable_ranges())


def nfc(s):
    return unicodedata.normalize('NFC', s)
