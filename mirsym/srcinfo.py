"""Facts read from /repo's Rust sources (never copied): struct field order, enum variants,
and what each `<impl at file:line:col: line:col>` span in a MIR item name refers to."""
import os
import re

_struct_re = re.compile(r'^\s*(?:pub(?:\([a-z]+\))?\s+)?struct\s+(\w+)')
_enum_re = re.compile(r'^\s*(?:pub(?:\([a-z]+\))?\s+)?enum\s+(\w+)')


class SrcInfo:
    def __init__(self, repo):
        self.repo = repo
        self.files = {}
        self.structs = {}   # name -> [field names]
        self.enums = {}     # name -> [variant names]
        self.field_types = {}   # struct name -> {field: type text}
        srcdir = os.path.join(repo, 'src')
        for fn in sorted(os.listdir(srcdir)):
            if fn.endswith('.rs'):
                rel = 'src/' + fn
                with open(os.path.join(srcdir, fn), encoding='utf-8') as f:
                    self.files[rel] = f.read().split('\n')
        for rel, lines in self.files.items():
            self._scan_items(lines)

    def _scan_items(self, lines):
        i = 0
        n = len(lines)
        while i < n:
            l = lines[i]
            m = _struct_re.match(l)
            if m and '{' not in l and ';' not in l and not l.strip().startswith('//'):
                # header continues (generics / where clause): find the opening brace
                k = i + 1
                while k < n and '{' not in lines[k] and ';' not in lines[k]:
                    k += 1
                if k < n and '{' in lines[k]:
                    i = k
                    l = lines[k] + ' {'
                    m2 = m
                else:
                    m = None
            if m and '{' in l and not l.strip().startswith('//'):
                name = m.group(1)
                fields = []
                ftypes = {}
                i += 1
                depth = 1
                while i < n and depth > 0:
                    s = lines[i]
                    st = s.strip()
                    if depth == 1:
                        fm = re.match(r'^(?:pub(?:\([a-z]+\))?\s+)?(\w+)\s*:', st)
                        if fm and not st.startswith('//') and not st.startswith('#'):
                            fields.append(fm.group(1))
                            ftypes[fm.group(1)] = st[fm.end():].split('//')[0].strip().rstrip(',').strip()
                    depth += s.count('{') - s.count('}')
                    i += 1
                self.structs.setdefault(name, fields)
                self.field_types.setdefault(name, ftypes)
                continue
            m = _enum_re.match(l)
            if m and '{' in l and not l.strip().startswith('//'):
                name = m.group(1)
                vs = []
                i += 1
                while i < n and '}' not in lines[i]:
                    st = lines[i].strip()
                    vm = re.match(r'^(\w+)', st)
                    if vm and not st.startswith('//') and not st.startswith('#'):
                        vs.append(vm.group(1))
                    i += 1
                self.enums.setdefault(name, vs)
                continue
            i += 1

    def span_text(self, rel, l1, c1, l2, c2):
        lines = self.files.get(rel)
        if lines is None:
            return None
        if l1 == l2:
            return lines[l1 - 1][c1 - 1:c2 - 1]
        parts = [lines[l1 - 1][c1 - 1:]] + lines[l1:l2 - 1] + [lines[l2 - 1][:c2 - 1]]
        return '\n'.join(parts)

    def impl_info(self, rel, l1, c1, l2, c2):
        """Return (self_type_basename, trait_basename_or_None) for an impl span."""
        txt = self.span_text(rel, l1, c1, l2, c2)
        if txt is None:
            return None
        t = ' '.join(txt.split())
        if t.startswith('impl'):
            t2 = re.sub(r'^impl\s*(<[^>]*>)?\s*', '', t)
            t2 = t2.split(' where ')[0]
            m = re.match(r'^([\w:]+)(?:<[^>]*>)?\s+for\s+([\w:]+)', t2)
            if m:
                return (m.group(2).split('::')[-1], m.group(1).split('::')[-1])
            m = re.match(r'^([\w:]+)', t2)
            return (m.group(1).split('::')[-1], None)
        # derive(...) entry: the span covers the trait name; the item follows
        trait = t.strip()
        lines = self.files[rel]
        for k in range(l1 - 1, min(l1 + 10, len(lines))):
            m = _struct_re.match(lines[k]) or _enum_re.match(lines[k])
            if m:
                return (m.group(1), trait)
        return None
