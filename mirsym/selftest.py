"""Encoding validation: concrete scenarios are executed by the symbolic engine (concretely) and by
the real crate (mt-replay); final snapshots, display() outputs and panics must agree."""
import json
import sys
import time
import traceback

from .values import *
from .engine import Engine, Ctx, Program
from .state import Session, Layout, snapshot, Recorder
from . import stdlib

ESC = '\x1b'
CSI = '\x9b'

SCENARIOS = [
    {'cols': 3, 'lines': 2, 'steps': [['draw', 'ab']]},
    {'cols': 3, 'lines': 3, 'steps': [['draw', 'abc'], ['draw', 'a'], ['display']]},
    {'cols': 3, 'lines': 3, 'steps': [['reset_mode', [224], False], ['draw', 'abcd'], ['display']]},
    {'cols': 5, 'lines': 3, 'steps': [['draw', 'ab'], ['cursor_position', 1, 1], ['set_mode', [4], False], ['draw', 'x'], ['display']]},
    {'cols': 5, 'lines': 5, 'steps': [['draw', 'コンニチハ'], ['display']]},
    {'cols': 5, 'lines': 2, 'steps': [['draw', 'éä'], ['display']]},
    {'cols': 10, 'lines': 10, 'steps': [['cursor_position', 5, 5], ['cursor_up', 2], ['cursor_down', 9], ['cursor_forward', None],
                                        ['cursor_back', 3], ['cursor_up1', 1], ['cursor_down1', 1], ['cursor_to_column', 4], ['cursor_to_line', 7]]},
    {'cols': 5, 'lines': 5, 'steps': [['set_margins', 2, 4], ['set_mode', [6], True], ['cursor_position', 1, 1], ['cursor_position', 5, 1], ['cursor_to_line', 2]]},
    {'cols': 5, 'lines': 5, 'steps': [['draw', 'aaaaa'], ['draw', 'bbbbb'], ['draw', 'ccccc'], ['cursor_position', 2, 2], ['erase_in_line', 0], ['display']]},
    {'cols': 5, 'lines': 5, 'steps': [['draw', 'aaaaa'], ['draw', 'bbbbb'], ['draw', 'ccccc'], ['cursor_position', 2, 2], ['erase_in_line', 1], ['erase_in_display', 0], ['display']]},
    {'cols': 5, 'lines': 5, 'steps': [['draw', 'aaaaabbbbbccccc'], ['cursor_position', 2, 3], ['erase_in_display', 1], ['display']]},
    {'cols': 5, 'lines': 5, 'steps': [['draw', 'aaaaabbbbbccccc'], ['select_graphic_rendition', [1, 31]], ['cursor_position', 2, 3], ['erase_in_display', 2], ['erase_characters', 2], ['display']]},
    {'cols': 5, 'lines': 4, 'steps': [['draw', 'aaaaabbbbbcccccddd'], ['cursor_position', 1, 1], ['index'], ['index'], ['index'], ['index'], ['display']]},
    {'cols': 5, 'lines': 4, 'steps': [['draw', 'aaaaabbbbbcccccddd'], ['cursor_position', 1, 1], ['reverse_index'], ['display']]},
    {'cols': 5, 'lines': 4, 'steps': [['draw', 'aaaaabbbbbcccccddd'], ['set_margins', 2, 3], ['cursor_position', 3, 1], ['index'], ['display'], ['reverse_index'], ['reverse_index'], ['display']]},
    {'cols': 5, 'lines': 4, 'steps': [['draw', 'aaaaabbbbbcccccddd'], ['cursor_position', 2, 3], ['insert_lines', 1], ['display'], ['delete_lines', 2], ['display']]},
    {'cols': 5, 'lines': 4, 'steps': [['draw', 'abcde'], ['cursor_position', 1, 2], ['insert_characters', 2], ['display'], ['delete_characters', 1], ['display']]},
    {'cols': 5, 'lines': 4, 'steps': [['draw', 'abcde'], ['cursor_position', 1, 2], ['delete_characters', 9], ['display']]},
    {'cols': 20, 'lines': 2, 'steps': [['tab'], ['set_tab_stop'], ['tab'], ['clear_tab_stop', 0], ['cariage_return'], ['tab'], ['tab'], ['tab']]},
    {'cols': 20, 'lines': 2, 'steps': [['cursor_to_column', 4], ['set_tab_stop'], ['clear_tab_stop', 3], ['cariage_return'], ['tab']]},
    {'cols': 5, 'lines': 5, 'steps': [['select_graphic_rendition', [1, 4, 31, 42]], ['cursor_position', 3, 3], ['save_cursor'], ['select_graphic_rendition', [0]],
                                      ['cursor_position', 1, 1], ['restore_cursor'], ['restore_cursor']]},
    {'cols': 5, 'lines': 5, 'steps': [['select_graphic_rendition', [38, 5, 1, 48, 2, 1, 2, 3, 9, 7, 5, 3]], ['draw', 'x']]},
    {'cols': 5, 'lines': 5, 'steps': [['select_graphic_rendition', [38, 2, 300, 0, 0]], ['draw', 'x']]},
    {'cols': 5, 'lines': 5, 'steps': [['select_graphic_rendition', [91, 102, 22, 1, 21, 0, 7]], ['draw', 'x'], ['select_graphic_rendition', []], ['draw', 'y']]},
    {'cols': 3, 'lines': 3, 'steps': [['draw', 'ab'], ['set_mode', [5], True], ['draw', 'c'], ['reset_mode', [5], True], ['draw', 'd']]},
    {'cols': 3, 'lines': 3, 'steps': [['set_mode', [25, 6, 7], True], ['reset_mode', [25], True], ['set_mode', [20, 4], False], ['draw', 'a'], ['linefeed'], ['draw', 'b']]},
    {'cols': 4, 'lines': 2, 'steps': [['draw', 'ab'], ['set_mode', [3], True], ['draw', 'q'], ['reset_mode', [3], True]]},
    {'cols': 4, 'lines': 3, 'steps': [['draw', 'abcdefghij'], ['resize', 2, 3], ['display']]},
    {'cols': 2, 'lines': 2, 'steps': [['draw', 'abcd'], ['resize', 3, 4], ['display'], ['resize', 1, 1], ['display']]},
    {'cols': 4, 'lines': 2, 'steps': [['alignment_display'], ['display']]},
    {'cols': 4, 'lines': 2, 'steps': [['define_charset', '0', '('], ['draw', 'qx\x61'], ['shift_out'], ['draw', 'q'], ['shift_in'], ['define_charset', 'U', ')'], ['shift_out'], ['draw', '\xb0']]},
    {'cols': 4, 'lines': 2, 'steps': [['set_title', 'hello'], ['set_icon_name', 'x'], ['draw', 'a'], ['reset']]},
    {'cols': 3, 'lines': 2, 'steps': [['draw', 'a'], ['backspace'], ['draw', 'b'], ['cariage_return'], ['linefeed'], ['bell']]},
    {'cols': 5, 'lines': 3, 'steps': [['erase_in_line', 3]]},
    {'cols': 5, 'lines': 3, 'steps': [['insert_characters', 1]]},
    {'cols': 5, 'lines': 3, 'steps': [['cursor_to_column', 0]]},
    # through the recogniser
    {'cols': 10, 'lines': 4, 'steps': [['feed', 'ab' + ESC + '[2;3Hc' + ESC + '[1mX' + ESC + '[0m\r\nq\tz']]},
    {'cols': 10, 'lines': 4, 'steps': [['feed', 'ab' + CSI + '2J' + CSI + 'H' + ESC + 'D' + ESC + 'M' + ESC + 'E' + ESC + '7' + ESC + '8' + ESC + 'Hq']]},
    {'cols': 10, 'lines': 4, 'steps': [['feed', ESC + ']2;title\x07x' + ESC + ']1;icon\x07y' + ESC + '#8']]},
    {'cols': 10, 'lines': 4, 'steps': [['feed', ESC + '[?6;7h' + ESC + '[4h' + ESC + '[2;3r' + ESC + '[5;5Hq' + ESC + '[?6l']]},
    {'cols': 10, 'lines': 4, 'steps': [['feed', ESC + '['], ['feed', '2;3'], ['feed', 'Hx' + ESC], ['feed', '[K']]},
    {'cols': 10, 'lines': 4, 'steps': [['feed', ESC + '[12$pz' + ESC + '[1;2\x18q' + ESC + '[ >3Ar' + ESC + '(Bs' + ESC + '%Gt']]},
    {'cols': 10, 'lines': 4, 'steps': [['feed', ESC + '[99999999999999999999999Bx' + ESC + '[;Hy' + ESC + '[3gz' + ESC + '[cq']]},
    {'cols': 10, 'lines': 4, 'steps': [['set_use_utf8', False], ['feed', '\x0eq\x0fq' + ESC + ')0\x0eq']]},
    {'cols': 10, 'lines': 4, 'steps': [['feed', 'a' + ESC + '[38;5;196;48;2;1;2;3mb' + ESC + '[Pc' + ESC + '[@' + ESC + '[Ld' + ESC + '[Me' + ESC + '[Xf' + ESC + '[2G' + ESC + '[2d']]},
    {'cols': 10, 'lines': 4, 'listener': 'rec', 'steps': [['feed', 'ab' + ESC + '[2;3Hc' + ESC + ']0;t\x07' + CSI + '?25l' + ESC + 'c\x07\x08\t\n\x0b\x0c\r\x0e\x0f' + ESC + '[5;6;7m' + ESC + '[1;2r']]},
    # bytes
    {'cols': 10, 'lines': 2, 'steps': [['feed_bytes', [97, 98, 99]]]},
    {'cols': 10, 'lines': 2, 'steps': [['feed_bytes', [0xe2, 0x9e, 0x9c, 0x41]]]},
    {'cols': 10, 'lines': 2, 'steps': [['feed_bytes', [0x41, 0xff]]]},
    {'cols': 10, 'lines': 2, 'steps': [['feed_bytes', [0x41]], ['feed_bytes', [0x42]]]},
    {'cols': 10, 'lines': 2, 'steps': [['select_other_charset', '@'], ['feed_bytes', [0x41, 0xe9, 0x0e, 0x71]]]},
]


def run_engine(prog, L, sc, ctx=None):
    """-> {'ok':..., 'out':[...]} in mt-replay's format (concrete run)."""
    ctx = ctx or Ctx()
    eng = Engine(prog, ctx)
    listener = 'Screen'
    rec = None
    if sc.get('listener') == 'rec':
        listener = 'Rec'
        rec = Recorder()
        eng.py_listeners['Rec'] = rec
    out = []
    try:
        ses = Session(eng, L, cols=sc.get('cols', 80), lines=sc.get('lines', 24), listener=listener)
        for st in sc['steps']:
            n0 = len(ses.out)
            ses.step(st)
            for o in ses.out[n0:]:
                if type(o) is tuple and o[0] == 'snapshot':
                    out.append(snapshot(eng, L, o[1]))
                else:
                    out.append([x.py() for x in deref_all(o).items])
        if rec is not None:
            out.append(rec_json(rec))
        else:
            out.append(snapshot(eng, L, ses.screen))
        return {'ok': True, 'out': out}, eng
    except Panic as e:
        return {'ok': False, 'panic': str(e), 'out': out}, eng


def rec_json(rec, ev=None):
    from .state import Ev
    ev = ev or Ev()
    res = []
    for name, args in rec.events:
        row = [name]
        for a in args:
            row.append(_j(ev, a))
        if name in ('erase_in_display', 'erase_in_line', 'report_device_attributes'):
            row = row[:2]
        res.append(row)
    return res


def _j(ev, a):
    if type(a) is tuple and a and a[0] == 'list':
        return [_j(ev, x) for x in a[1]]
    a = deref_all(a)
    if type(a) is Int:
        return ev.int(a)
    if type(a) is bool or hasattr(a, 'sort'):
        return ev.bool(a)
    if type(a) is Str or type(a) is SChoice:
        return ev.str(a)
    if type(a) is Enum and a.ty == 'Option':
        d = a.disc if type(a.disc) is int else ev.int(a.disc)
        return None if d == 0 else _j(ev, a.pay[1][0])
    if type(a) is Agg and a.name == '[]':
        return [_j(ev, x) for x in a.f]
    raise Unmodelled('recorder value %r' % (a,))


def compare(a, b):
    """Compare engine result a with native result b (dicts)."""
    if a.get('ok') != b.get('ok'):
        return 'ok flag differs: engine %r native %r' % ({k: a.get(k) for k in ('ok', 'panic')}, {k: b.get(k) for k in ('ok', 'panic', 'hang')})
    if not a['ok']:
        return None   # both panic (messages may differ in wording)
    if json.dumps(a['out'], sort_keys=True) != json.dumps(b['out'], sort_keys=True):
        for i, (x, y) in enumerate(zip(a['out'], b['out'])):
            if json.dumps(x, sort_keys=True) != json.dumps(y, sort_keys=True):
                if isinstance(x, dict) and isinstance(y, dict):
                    for k in x:
                        if json.dumps(x[k], sort_keys=True) != json.dumps(y.get(k), sort_keys=True):
                            return 'output %d differs at %s: engine %r native %r' % (i, k, x[k], y.get(k))
                return 'output %d differs: engine %r native %r' % (i, x, y)
        return 'outputs differ in length'
    return None


def run_all(prog, L, native, scenarios=SCENARIOS, verbose=False):
    """-> (n_agree, [failures])"""
    fails = []
    n = 0
    for sc in scenarios:
        try:
            r, eng = run_engine(prog, L, sc)
        except Exception as e:
            fails.append((sc, 'engine error: %s: %s' % (type(e).__name__, e)))
            if verbose:
                traceback.print_exc()
            continue
        nat = native.run(sc)
        d = compare(r, nat)
        if d:
            fails.append((sc, d))
        else:
            n += 1
    return n, fails


if __name__ == '__main__':
    from . import build, tables
    from .replay import Native
    m, _, _ = build.mir_dump()
    bins = build.build_replay(('dev',))
    tables.load(build.tables_file(bins['dev']))
    prog = Program(open(m).read(), build.REPO)
    L = Layout(prog)
    nat = Native(bins['dev'])
    t = time.time()
    n, fails = run_all(prog, L, nat, verbose='-v' in sys.argv)
    print('%d/%d scenarios agree  (%.1fs)' % (n, len(SCENARIOS), time.time() - t))
    for sc, d in fails:
        print('FAIL', json.dumps(sc['steps'])[:150], '\n    ', d[:600])
    nat.close()
