"""Value model of the MIR symbolic executor.  All values are immutable; writes rebuild the spine."""
import z3

BITS = {'u8': 8, 'i8': 8, 'u16': 16, 'i16': 16, 'u32': 32, 'i32': 32, 'u64': 64, 'i64': 64,
        'usize': 64, 'isize': 64, 'u128': 128, 'i128': 128, 'char': 32}
SIGNED = {'i8', 'i16', 'i32', 'i64', 'isize', 'i128'}


class Panic(Exception):
    """The program under test panicked on this path."""


class Unmodelled(Exception):
    """The engine met something it has no model for; the run is inconclusive."""


class Infeasible(Exception):
    """The current path condition is unsatisfiable (should not happen after a feasibility check)."""


class Budget(Exception):
    """Step budget exceeded on this path."""


class Int:
    __slots__ = ('ty', 'v')

    def __init__(self, ty, v):
        self.ty = ty
        self.v = v

    def __repr__(self):
        return '%s:%s' % (self.v, self.ty)

    @property
    def concrete(self):
        return type(self.v) is int


def norm_int(ty, x):
    """Wrap python int x into the range of ty."""
    b = BITS[ty]
    x &= (1 << b) - 1
    if ty in SIGNED and x >> (b - 1):
        x -= 1 << b
    return x


def mk(ty, x):
    if type(x) is int:
        return Int(ty, norm_int(ty, x))
    return Int(ty, x)


def bv(i):
    """z3 bit-vector of an Int."""
    if type(i.v) is int:
        return z3.BitVecVal(i.v, BITS[i.ty])
    return i.v


def is_sym(x):
    return isinstance(x, z3.ExprRef)


class Agg:
    """struct / tuple / array / closure environment."""
    __slots__ = ('name', 'f')

    def __init__(self, name, fields):
        self.name = name
        self.f = tuple(fields)

    def __repr__(self):
        if len(self.f) > 12:
            return '%s(<%d>)' % (self.name, len(self.f))
        return '%s%r' % (self.name, self.f)

    def with_field(self, i, v):
        return Agg(self.name, self.f[:i] + (v,) + self.f[i + 1:])


UNIT = Agg('tuple', ())

VARIANTS = {
    'Option': ['None', 'Some'],
    'Result': ['Ok', 'Err'],
    'Entry': ['Occupied', 'Vacant'],
    'Cow': ['Borrowed', 'Owned'],
    'Ordering': ['Less', 'Equal', 'Greater'],
    'ControlFlow': ['Continue', 'Break'],
    'CoderResult': ['InputEmpty', 'OutputFull'],
}


class Enum:
    __slots__ = ('ty', 'disc', 'pay')

    def __init__(self, ty, disc, pay=None):
        self.ty = ty          # short enum name
        self.disc = disc      # python int or z3 BV64
        self.pay = pay or {}  # variant index -> tuple of payload fields

    def __repr__(self):
        names = VARIANTS.get(self.ty)
        if type(self.disc) is int and names:
            return '%s::%s%r' % (self.ty, names[self.disc], self.pay.get(self.disc, ()))
        return '%s::<%r>%r' % (self.ty, self.disc, self.pay)


def some(v):
    return Enum('Option', 1, {1: (v,)})


NONE = Enum('Option', 0)


def ok(v):
    return Enum('Result', 0, {0: (v,)})


def err(v):
    return Enum('Result', 1, {1: (v,)})


class Str:
    """String / str contents: a tuple of code points (python ints or z3 BV32)."""
    __slots__ = ('c',)

    def __init__(self, chars):
        self.c = tuple(chars)

    @staticmethod
    def of(s):
        return Str(tuple(ord(ch) for ch in s))

    def concrete(self):
        return all(type(x) is int for x in self.c)

    def py(self):
        return ''.join(chr(x) if type(x) is int else '⁇' for x in self.c)

    def __repr__(self):
        return 'Str(%r)' % (self.py() if self.concrete() else self.c,)


class CapStr(Str):
    """A String whose capacity matters (created by String::with_capacity and handed to an API that
    writes at most `capacity` bytes)."""
    __slots__ = ('cap',)

    def __init__(self, chars, cap):
        Str.__init__(self, chars)
        self.cap = cap


class SChoice:
    """A string that is one of finitely many Str, selected by mutually exclusive guards."""
    __slots__ = ('alts',)

    def __init__(self, alts):
        self.alts = tuple(alts)   # (guard, Str)

    def __repr__(self):
        return 'SChoice(%r)' % (self.alts,)


class VecV:
    __slots__ = ('items',)

    def __init__(self, items=()):
        self.items = tuple(items)

    def __repr__(self):
        return 'Vec%r' % (list(self.items),)


class MapV:
    """HashMap / HashSet / BTreeMap: ordered entries (key, present, value).
    present is True or a z3 Bool.  Keys of present entries are pairwise distinct (an invariant the
    constructor of a symbolic state must assert).  Entries that are definitely absent are dropped."""
    __slots__ = ('e', 'kind', '_idx')

    def __init__(self, entries=(), kind='map'):
        self.e = tuple(entries)
        self.kind = kind
        self._idx = None

    def index(self):
        """(dict concrete int key -> [entry indices], [indices of entries with symbolic/non-int keys])"""
        ix = self._idx
        if ix is None:
            d = {}
            sym = []
            for i, (k, p, v) in enumerate(self.e):
                if type(k) is Int and type(k.v) is int:
                    d.setdefault(k.v, []).append(i)
                else:
                    sym.append(i)
            ix = (d, sym)
            self._idx = ix
        return ix

    def __repr__(self):
        return 'Map%r' % (list(self.e),)


class Cell:
    """A heap location (Arc contents, promoted constants, harness roots).  locals[0] is the value."""
    __slots__ = ('locals', 'tag')

    def __init__(self, v, tag=None):
        self.locals = [v]
        self.tag = tag

    @property
    def v(self):
        return self.locals[0]

    @v.setter
    def v(self, x):
        self.locals[0] = x


class Ref:
    """Pointer: base is a Frame or Cell (anything with .locals), path[0] indexes base.locals."""
    __slots__ = ('base', 'path', 'rng')

    def __init__(self, base, path, rng=None):
        self.base = base
        self.path = path
        self.rng = rng   # (start, end) for sub-slices, python ints

    def __repr__(self):
        return 'Ref(%s,%r%s)' % (type(self.base).__name__, self.path, '' if self.rng is None else ',%r' % (self.rng,))


class ArcV:
    __slots__ = ('cell',)

    def __init__(self, cell):
        self.cell = cell


class Guard:
    """MutexGuard: ref to the Mutex aggregate (locked flag, value)."""
    __slots__ = ('mref',)

    def __init__(self, mref):
        self.mref = mref


class FnItem:
    __slots__ = ('path',)

    def __init__(self, path):
        self.path = path

    def __repr__(self):
        return 'FnItem(%s)' % self.path


class Iter:
    """Iterator state; kind selects the `next` implementation in stdlib."""
    __slots__ = ('kind', 's')

    def __init__(self, kind, *state):
        self.kind = kind
        self.s = state

    def __repr__(self):
        return 'Iter(%s,%r)' % (self.kind, self.s)


class StaticRef:
    __slots__ = ('name',)

    def __init__(self, name):
        self.name = name

    def __repr__(self):
        return 'StaticRef(%s)' % self.name


class Opaque:
    """A value the engine carries around but never inspects (fmt::Arguments, Encoding, ...)."""
    __slots__ = ('what', 'data')

    def __init__(self, what, data=None):
        self.what = what
        self.data = data

    def __repr__(self):
        return 'Opaque(%s)' % self.what


class Coroutine:
    __slots__ = ('stack', 'started', 'done', 'closure', 'tsubst')

    def __init__(self):
        self.stack = []
        self.started = False
        self.done = False


# --------------------------------------------------------------------------- navigation

def nav_get(v, step):
    t = type(step)
    if t is int:
        tv = type(v)
        if tv is Agg:
            return v.f[step]
        if tv is VecV:
            return v.items[step]
        if tv is tuple:
            return v[step]
        if tv is Guard or tv is ArcV:
            raise Unmodelled('field of %r' % (v,))
        raise Unmodelled('field %r of %r' % (step, v))
    if step[0] == 'dc':
        if type(v) is Enum:
            idx = VARIANTS[v.ty].index(step[1])
            return v.pay.get(idx, ())
        raise Unmodelled('downcast of %r' % (v,))
    if step[0] == 'm':
        return v.e[step[1]][2]
    raise Unmodelled('nav step %r' % (step,))


def nav_set(v, step, nv):
    t = type(step)
    if t is int:
        tv = type(v)
        if tv is Agg:
            return Agg(v.name, v.f[:step] + (nv,) + v.f[step + 1:])
        if tv is VecV:
            return VecV(v.items[:step] + (nv,) + v.items[step + 1:])
        if tv is tuple:
            return v[:step] + (nv,) + v[step + 1:]
        raise Unmodelled('set field %r of %r' % (step, v))
    if step[0] == 'dc':
        idx = VARIANTS[v.ty].index(step[1])
        pay = dict(v.pay)
        pay[idx] = nv
        return Enum(v.ty, v.disc, pay)
    if step[0] == 'm':
        i = step[1]
        k, p, _ = v.e[i]
        return MapV(v.e[:i] + ((k, p, nv),) + v.e[i + 1:], v.kind)
    raise Unmodelled('nav step %r' % (step,))


def load(ref):
    v = ref.base.locals[ref.path[0]]
    for s in ref.path[1:]:
        v = nav_get(v, s)
    return v


def _set_path(v, path, i, nv):
    if i == len(path):
        return nv
    s = path[i]
    return nav_set(v, s, _set_path(nav_get(v, s), path, i + 1, nv))


def store(ref, nv):
    p = ref.path
    if len(p) == 1:
        ref.base.locals[p[0]] = nv
    else:
        ref.base.locals[p[0]] = _set_path(ref.base.locals[p[0]], p, 1, nv)


def deref_all(v):
    """Follow Ref chains until a non-reference value."""
    while type(v) is Ref:
        v = load(v)
    return v
