"""Symbolic pre-states S(geom) (DESIGN.md 3.5) and no-fork structural comparison of states."""
import z3

from .values import *
from .engine import int_eq, bool_and, bool_or, bool_not, bool_eq, to_z3bool, _cmp
from .state import MODES, FLAG_NAMES, CharsetChoice
from . import stdlib

COLOURS = ['default', 'red', 'brightblue', '00ff00']


def bvv(x, bits=32):
    return z3.BitVecVal(x, bits)


def sym_opt_u32(ctx, name, lo=0, hi=9999):
    """Option<u32> with symbolic discriminant and payload in lo..=hi."""
    d = ctx.bvvar(name + '_some', 64)
    n = ctx.bvvar(name, 32)
    ctx.assume(z3.ULE(d, 1))
    ctx.assume(z3.And(z3.UGE(n, lo), z3.ULE(n, hi)))
    return Enum('Option', d, {1: (Int('u32', n),)})


def opt_parts(o):
    """(is_some as z3 Bool/python bool, payload Int or None)"""
    if type(o.disc) is int:
        return o.disc == 1, (o.pay[1][0] if o.disc == 1 else None)
    return o.disc == bvv(1, 64), o.pay[1][0]


def colour_choice(ctx, name):
    s = ctx.bvvar(name, 2)
    return SChoice(tuple((s == bvv(i, 2), Str.of(c)) for i, c in enumerate(COLOURS)))


def sym_charopts(ctx, L, name, data, flags=True, colours=True):
    f = [None] * len(L.char)
    f[L.char['data']] = data if type(data) in (Str, SChoice) else Str.of(data)
    f[L.char['fg']] = colour_choice(ctx, name + '_fg') if colours else Str.of('default')
    f[L.char['bg']] = colour_choice(ctx, name + '_bg') if colours else Str.of('default')
    for n in FLAG_NAMES:
        f[L.char[n]] = ctx.boolvar('%s_%s' % (name, n)) if flags else False
    return Agg('CharOpts', f)


class SymScreen:
    """Builds a Screen value with symbolic components and records the assumptions (Inv_core)."""

    def __init__(self, ctx, eng, L, cols=None, lines=None, *, geom_max=(140, 40), cursor='sym',
                 margins='sym', modes='sym', extra_mode=True, buffer='cells', tabstops=2, dirty='sym',
                 attr='sym', cell_attrs='sym', savepoints=0, titles='sym', charset='default',
                 saved_columns='sym', hidden_cells=False, markers=None, sp_charsets='sym'):
        self.ctx = ctx
        self.L = L
        S = L.screen
        f = [None] * L.screen_n
        # geometry
        if cols is None:
            c = ctx.bvvar('columns', 32)
            l = ctx.bvvar('lines', 32)
            ctx.assume(z3.And(z3.UGE(c, 1), z3.ULE(c, geom_max[0]), z3.UGE(l, 1), z3.ULE(l, geom_max[1])))
            self.cols, self.lines = c, l
            self.concrete_geom = False
        else:
            self.cols, self.lines = cols, lines
            self.concrete_geom = True
        f[S['columns']] = Int('u32', self.cols)
        f[S['lines']] = Int('u32', self.lines)
        C, Ln = self.cols, self.lines
        # cursor
        if cursor == 'sym':
            x = ctx.bvvar('cx', 32)
            y = ctx.bvvar('cy', 32)
            ctx.assume(z3.And(z3.ULE(x, C), z3.ULT(y, Ln)))
        elif cursor == 'pick':
            x0 = ctx.bvvar('cx', 32)
            y0 = ctx.bvvar('cy', 32)
            ctx.assume(z3.And(z3.ULE(x0, C), z3.ULT(y0, Ln)))
            y = ctx.concretize(y0)
            x = ctx.concretize(x0)
        elif type(cursor) is tuple and cursor[0] == 'among':
            # the cursor is one of the listed (x, y) positions -- still chosen by the solver, one path each
            x0 = ctx.bvvar('cx', 32)
            y0 = ctx.bvvar('cy', 32)
            ctx.assume(z3.And(z3.ULE(x0, C), z3.ULT(y0, Ln)))
            ctx.assume(z3.Or([z3.And(x0 == px, y0 == py) for (px, py) in cursor[1]]))
            y = ctx.concretize(y0)
            x = ctx.concretize(x0)
        else:
            x, y = cursor
        self.cx, self.cy = x, y
        cf = [None] * len(L.cursor)
        cf[L.cursor['x']] = Int('u32', x)
        cf[L.cursor['y']] = Int('u32', y)
        cf[L.cursor['hidden']] = ctx.boolvar('c_hidden')
        cf[L.cursor['attr']] = sym_charopts(ctx, L, 'cattr', ' ', flags=(attr == 'sym'), colours=(attr == 'sym'))
        f[S['cursor']] = Agg('Cursor', cf)
        # margins
        if margins == 'sym' or (type(margins) is tuple and margins[0] == 'among'):
            md = ctx.bvvar('m_some', 64)
            top = ctx.bvvar('m_top', 32)
            bot = ctx.bvvar('m_bot', 32)
            ctx.assume(z3.ULE(md, 1))
            ctx.assume(z3.Implies(md == 1, z3.And(z3.ULT(top, bot), z3.ULT(bot, Ln))))
            if margins != 'sym':
                # a region, if set, is one of the listed (top, bottom) pairs
                ctx.assume(z3.Implies(md == 1, z3.Or([z3.And(top == t_, bot == b_) for (t_, b_) in margins[1]])))
            mf = [None, None]
            mf[L.margins['top']] = Int('u32', top)
            mf[L.margins['bottom']] = Int('u32', bot)
            f[S['margins']] = Enum('Option', md, {1: (Agg('Margins', mf),)})
            self.m_some = md == 1
            self.m_top, self.m_bot = top, bot
        else:
            f[S['margins']] = NONE
            self.m_some = False
            self.m_top = self.m_bot = None
        # modes
        ents = []
        self.mode_in = {}
        for n, num in MODES.items():
            if modes == 'sym':
                p = ctx.boolvar('mode_' + n)
            elif isinstance(modes, dict):
                p = modes.get(n, False)
                if p == 'sym':
                    p = ctx.boolvar('mode_' + n)
            else:
                p = n in ('DECAWM', 'DECTCEM')
            self.mode_in[n] = p
            if p is not False:
                ents.append((Int('u32', num), p, UNIT))
        if extra_mode:
            xm = ctx.bvvar('mode_extra', 32)
            ctx.assume(z3.And([xm != v for v in MODES.values()]))
            ctx.assume(z3.ULE(xm, 9999 << 5))
            ents.append((Int('u32', xm), ctx.boolvar('mode_extra_in'), UNIT))
        f[S['mode']] = MapV(tuple(ents), 'set')
        # dirty
        dents = []
        if dirty == 'sym':
            if self.concrete_geom:
                for yy in range(lines):
                    dents.append((Int('u32', yy), ctx.boolvar('dirty_%d' % yy), UNIT))
            else:
                d0 = ctx.bvvar('dirty_k0', 32)
                ctx.assume(z3.ULT(d0, Ln))
                dents.append((Int('u32', d0), ctx.boolvar('dirty_p0'), UNIT))
        f[S['dirty']] = MapV(tuple(dents), 'set')
        # tab stops
        tents = []
        tk = []
        for i in range(tabstops):
            k = ctx.bvvar('tab_k%d' % i, 32)
            ctx.assume(z3.ULE(k, max(150, geom_max[0] + 10)))
            for o in tk:
                ctx.assume(k != o)
            tk.append(k)
            tents.append((Int('u32', k), ctx.boolvar('tab_p%d' % i), UNIT))
        f[S['tabstops']] = MapV(tuple(tents), 'set')
        # buffer
        rows = []
        self.markers = {}
        if buffer == 'cells' and self.concrete_geom:
            for yy in range(lines):
                cells = []
                for xx in range(cols + (1 if hidden_cells else 0)):
                    mk_ = markers(yy, xx) if markers else chr(ord('a') + (yy * cols + xx) % 26)
                    self.markers[(yy, xx)] = mk_
                    cell = sym_charopts(ctx, L, 'cell_%d_%d' % (yy, xx), mk_, flags=(cell_attrs == 'sym'),
                                        colours=(cell_attrs == 'sym'))
                    cells.append((Int('u32', xx), ctx.boolvar('cellp_%d_%d' % (yy, xx)), cell))
                rows.append((Int('u32', yy), ctx.boolvar('rowp_%d' % yy), MapV(tuple(cells), 'map')))
        elif type(buffer) is tuple and buffer[0] == 'sparse' and self.concrete_geom:
            # only the listed (y, x) positions may hold a cell (symbolic presence/rendition); the rest of a
            # large screen was never written
            by_row = {}
            for (yy, xx) in buffer[1]:
                by_row.setdefault(yy, []).append(xx)
            for yy in sorted(by_row):
                cells = []
                for xx in sorted(set(by_row[yy])):
                    mk_ = markers(yy, xx) if markers else chr(ord('a') + (yy * 7 + xx) % 26)
                    self.markers[(yy, xx)] = mk_
                    cell = sym_charopts(ctx, L, 'cell_%d_%d' % (yy, xx), mk_, flags=(cell_attrs == 'sym'),
                                        colours=(cell_attrs == 'sym'))
                    cells.append((Int('u32', xx), ctx.boolvar('cellp_%d_%d' % (yy, xx)), cell))
                rows.append((Int('u32', yy), ctx.boolvar('rowp_%d' % yy), MapV(tuple(cells), 'map')))
        elif buffer == 'one':
            ry = ctx.bvvar('buf_y', 32)
            rx = ctx.bvvar('buf_x', 32)
            ctx.assume(z3.And(z3.ULT(ry, Ln), z3.ULT(rx, C)))
            cell = sym_charopts(ctx, L, 'cell0', 'q')
            rows.append((Int('u32', ry), ctx.boolvar('rowp'), MapV(((Int('u32', rx), ctx.boolvar('cellp'), cell),), 'map')))
        f[S['buffer']] = MapV(tuple(rows), 'map')
        # titles
        if titles == 'sym':
            ts = ctx.boolvar('title_set')
            f[S['title']] = SChoice(((ts, Str.of('T')), (z3.Not(ts), Str(()))))
            ic = ctx.boolvar('icon_set')
            f[S['icon_name']] = SChoice(((ic, Str.of('I')), (z3.Not(ic), Str(()))))
        else:
            f[S['title']] = Str(())
            f[S['icon_name']] = Str(())
        # charsets
        maps = deref_all(eng.lazy_value('MAPS'))
        tabs = {deref_all(k).py(): v for (k, p, v) in maps.e}
        self.tables = tabs
        if charset == 'default':
            f[S['charset']] = Enum('Charset', 0)
            f[S['g0_charset']] = tabs['B']
            f[S['g1_charset']] = tabs['0']
        elif charset == 'symsel':
            cs = ctx.bvvar('charset', 64)
            ctx.assume(z3.ULE(cs, 1))
            f[S['charset']] = Enum('Charset', cs)
            f[S['g0_charset']] = tabs['B']
            f[S['g1_charset']] = tabs['0']
        else:
            cs = ctx.bvvar('charset', 64)
            ctx.assume(z3.ULE(cs, 1))
            f[S['charset']] = Enum('Charset', cs)
            names = ['B', '0', 'U', 'V']
            g0 = ctx.concretize(_bounded(ctx, 'g0_sel', 4))
            g1 = ctx.concretize(_bounded(ctx, 'g1_sel', 4))
            f[S['g0_charset']] = tabs[names[g0]]
            f[S['g1_charset']] = tabs[names[g1]]
        # savepoints
        sps = []
        if type(savepoints) is tuple and savepoints[0] == 'deep':
            # a deep stack: n-1 copies of one symbolic entry below a separately symbolic top
            base = self._savepoint(ctx, L, 'sp1', tabs, 'fixed')
            sps = [base] * (savepoints[1] - 1)
            savepoints = 1
        for i in range(savepoints):
            sps.append(self._savepoint(ctx, L, 'sp%d' % i, tabs, sp_charsets))
        f[S['savepoints']] = VecV(sps)
        if saved_columns == 'sym':
            sd = ctx.bvvar('savedcols_some', 64)
            sv = ctx.bvvar('savedcols', 32)
            ctx.assume(z3.ULE(sd, 1))
            ctx.assume(z3.And(z3.UGE(sv, 1), z3.ULE(sv, 140)))
            # the integer type of the remembered width is read from the source
            import re as _re
            tt = eng.p.src.field_types.get('Screen', {}).get('saved_columns', '')
            mt = _re.match(r'^Option<\s*(u8|u16|u32|u64|usize)\s*>$', tt)
            if not mt:
                raise Unmodelled('Screen.saved_columns has type %r' % tt)
            ity = mt.group(1)
            bits = BITS[ity]
            if bits != 32:
                raw = sv
                sv = z3.Extract(bits - 1, 0, raw) if bits < 32 else z3.ZeroExt(bits - 32, raw)
                if bits < 32:
                    ctx.assume(z3.ULE(raw, (1 << bits) - 1))
            f[S['saved_columns']] = Enum('Option', sd, {1: (Int(ity, sv),)})
        else:
            f[S['saved_columns']] = NONE
        self.value = Agg('Screen', f)

    def _savepoint(self, ctx, L, name, tabs, sp_charsets='sym'):
        P = L.savepoint
        sf = [None] * len(P)
        cf = [None] * len(L.cursor)
        x = ctx.bvvar(name + '_x', 32)
        y = ctx.bvvar(name + '_y', 32)
        ctx.assume(z3.And(z3.ULE(x, 400), z3.ULE(y, 400)))
        cf[L.cursor['x']] = Int('u32', x)
        cf[L.cursor['y']] = Int('u32', y)
        cf[L.cursor['hidden']] = ctx.boolvar(name + '_hidden')
        cf[L.cursor['attr']] = sym_charopts(ctx, L, name + '_attr', ' ')
        sf[P['cursor']] = Agg('Cursor', cf)
        names = ['B', '0', 'U', 'V']
        if sp_charsets == 'sym':
            sf[P['g0_charset']] = tabs[names[ctx.concretize(_bounded(ctx, name + '_g0', 4))]]
            sf[P['g1_charset']] = tabs[names[ctx.concretize(_bounded(ctx, name + '_g1', 4))]]
        else:
            # fixed but pairwise distinct per stack slot (and distinct from the power-on tables)
            k = int(name[2:]) if name[2:].isdigit() else 0
            pair = [('U', 'V'), ('V', 'U'), ('0', 'B'), ('U', '0')][k % 4]
            sf[P['g0_charset']] = tabs[pair[0]]
            sf[P['g1_charset']] = tabs[pair[1]]
        cs = ctx.bvvar(name + '_charset', 64)
        ctx.assume(z3.ULE(cs, 1))
        sf[P['charset']] = Enum('Charset', cs)
        sf[P['origin']] = ctx.boolvar(name + '_origin')
        sf[P['wrap']] = ctx.boolvar(name + '_wrap')
        return Agg('Savepoint', sf)


def _bounded(ctx, name, n):
    v = ctx.bvvar(name, 8)
    ctx.assume(z3.ULT(v, n))
    return v


# --------------------------------------------------------------------------- comparison without forking

def same(a, b):
    """Structural equality as python bool / z3 Bool; identity short-cuts.  Raises Unmodelled when two
    maps cannot be compared without forking."""
    if a is b:
        return True
    ta = type(a)
    if ta is Int:
        return int_eq(a, b)
    if ta is bool or isinstance(a, z3.BoolRef):
        return bool_eq(a, b)
    if ta is Str or ta is SChoice:
        return stdlib.str_eq(a, b)
    if ta is Enum:
        return stdlib.val_eq(None, a, b) if not _has_map(a) else _enum_same(a, b)
    if ta is Agg:
        if type(b) is not Agg or len(a.f) != len(b.f):
            return False
        r = True
        for x, y in zip(a.f, b.f):
            r = bool_and(r, same(x, y))
            if r is False:
                return False
        return r
    if ta is VecV:
        if len(a.items) != len(b.items):
            return False
        r = True
        for x, y in zip(a.items, b.items):
            r = bool_and(r, same(x, y))
        return r
    if ta is MapV:
        return map_same(a, b)
    if a is None and b is None:
        return True
    raise Unmodelled('same() on %r' % (a,))


def _has_map(e):
    return False


def _enum_same(a, b):
    return stdlib.val_eq(None, a, b)


def map_get_nofork(m, key):
    """(present condition, value-or-None candidates) for a concrete or symbolic key: list of (cond, value)."""
    out = []
    for (k, p, v) in m.e:
        c = bool_and(p, int_eq(k, key))
        if c is not False:
            out.append((c, v))
    return out


def map_same(a, b):
    """Equality of two maps as sets of (key, value) pairs, without forking.  Keys must be ints."""
    if a is b:
        return True
    keys = []
    for m in (a, b):
        for (k, p, v) in m.e:
            if type(k) is not Int:
                raise Unmodelled('map_same on non-integer keys')
            keys.append(k)
    r = True
    seen = []
    for k in keys:
        if any(k is s or (k.concrete and s.concrete and k.v == s.v) for s in seen):
            continue
        seen.append(k)
        ca = map_get_nofork(a, k)
        cb = map_get_nofork(b, k)
        pa = False
        for c, _ in ca:
            pa = bool_or(pa, c)
        pb = False
        for c, _ in cb:
            pb = bool_or(pb, c)
        r = bool_and(r, bool_eq(pa, pb))
        # values equal whenever both present
        for c1, v1 in ca:
            for c2, v2 in cb:
                both = bool_and(c1, c2)
                if both is False:
                    continue
                r = bool_and(r, bool_or(bool_not(both), same(v1, v2)))
        if r is False:
            return False
    return r
