"""Exploration driver: jobs (one symbolic harness each) are explored path by path on a process pool;
every violating path is replayed against the real crate before it is reported; a seeded sample of
passing paths is replayed too (encoding validation)."""
import fnmatch
import hashlib
import json
import multiprocessing as mp
import os
import random
import sys
import time
import traceback

import z3

from .values import *
from .engine import Engine, Ctx, Program, to_z3bool
from . import build, tables
from .replay import Native
from .state import Layout

VERIF = build.VERIF

# populated before forking
G = {'prog': None, 'L': None, 'jobs': {}, 'bins': None, 'seed': 0, 'known': [], 'validate_rate': 0.05,
     'tier': 'quick'}
_native = {}


def native(profile='dev'):
    n = _native.get(profile)
    if n is None:
        n = Native(G['bins'][profile])
        _native[profile] = n
    return n


class _Stop(Exception):
    pass


class Job:
    """One symbolic harness.  path_fn(ctx, job) -> PathOutcome-like dict (see run_one_path)."""

    def __init__(self, name, fn, **params):
        self.name = name
        self.fn = fn
        self.params = params


class Check:
    """What a harness hands back for one path.

    ok        : python bool / z3 Bool -- the property's post-condition on this path
    scenario  : callable(model) -> (scenario dict for mt-replay, predicted result dict)   [for replay]
    describe  : callable(model) -> short human string (sample / witness description)
    sig       : callable(model) -> signature string used to match known findings
    """

    def __init__(self, ok, scenario=None, describe=None, sig=None, outcome='ok', label=''):
        self.ok = ok
        self.scenario = scenario
        self.describe = describe
        self.sig = sig
        self.outcome = outcome
        self.label = label


def _stable_hash(s):
    return int(hashlib.sha256(s.encode()).hexdigest()[:12], 16)


def compare_native(pred, nat):
    """Does the native run agree with the engine's prediction?  -> None or a difference string."""
    from .selftest import compare
    return compare(pred, nat)


def crosscheck(ctx, bad, expect_sat):
    """Re-decide `path condition AND bad` with cvc5 and the system z3 (4.8.12) from an SMT-LIB2 dump.
    Returns a disagreement description or None.  Any `(error` line or timeout is inconclusive -> reported."""
    import subprocess, tempfile
    s2 = z3.Solver()
    for c in ctx.pc:
        s2.add(c)
    if bad is not True:
        s2.add(bad)
    text = '(set-logic ALL)\n' + s2.to_smt2()
    want = 'sat' if expect_sat else 'unsat'
    with tempfile.NamedTemporaryFile('w', suffix='.smt2', delete=False, dir='/tmp') as f:
        f.write(text)
        path = f.name
    out = None
    try:
        for name, cmd in (('cvc5', ['cvc5', '--lang', 'smt2', '--tlimit=20000', path]),
                          ('z3-4.8.12', ['/usr/bin/z3', '-smt2', '-T:20', path])):
            try:
                r = subprocess.run(cmd, stdout=subprocess.PIPE, stderr=subprocess.STDOUT, text=True, timeout=40)
                ans = r.stdout.strip().splitlines()
            except subprocess.TimeoutExpired:
                ans = ['timeout']
            if any('(error' in l for l in ans):
                out = '%s reports an error on the dumped query: %s' % (name, ' '.join(ans)[:200])
                break
            verdict = ans[0].strip() if ans else ''
            if verdict in ('timeout', 'unknown', ''):
                continue   # inconclusive second opinion: not a disagreement
            if verdict != want:
                out = '%s answers %s where z3 %s answered %s' % (name, verdict, z3.get_version_string(), want)
                break
    finally:
        try:
            os.remove(path)
        except OSError:
            pass
    return out


def run_one_path(job, prefix):
    """Execute one path; returns (record, new_prefixes)."""
    ctx = Ctx(prefix)
    rec = {'job': job.name, 'status': 'ok', 'steps': 0, 'blocks': 0, 'queries': 0, 'solver_s': 0.0,
           'validated': 0, 'funcs': (), 'xchecked': 0}
    eng_box = {}
    try:
        chk = job.fn(ctx, job, eng_box)
        eng = eng_box.get('eng')
        if eng is not None:
            rec['steps'] = eng.steps
            rec['blocks'] = eng.blocks
            rec['funcs'] = tuple(eng.functions_entered)
        checks = chk if isinstance(chk, list) else [chk]
        hx = _stable_hash('x|%s|%s|%d' % (job.name, prefix, G['seed']))
        # a seeded sample of paths, plus the first path of every job (so small checks are cross-checked too)
        want_x = G.get('xcheck_rate', 0.0) > 0 and ((hx % 100000) < G['xcheck_rate'] * 100000 or not prefix)
        for c in checks:
            bad = z3.Not(to_z3bool(c.ok)) if not isinstance(c.ok, bool) else (not c.ok)
            viol = False
            if bad is True:
                viol = ctx.check()
            elif bad is not False:
                viol = ctx.check(bad)
            if want_x and bad is not False:
                d = crosscheck(ctx, bad, viol)
                rec['xchecked'] += 1
                if d is not None:
                    rec['status'] = 'solver_disagreement'
                    rec['detail'] = d
                    break
            if viol:
                # known-finding regions: is there a violation outside all of them?
                model = ctx.model()
                regions = [k for k in G['known'] if k.get('status', 'open') == 'open'
                           and fnmatch.fnmatch(job.name, k.get('job', '*')) and k['property'] == job.params.get('prop')]
                hit = None
                if regions:
                    ns = region_namespace(ctx)
                    rexprs = []
                    for k in regions:
                        try:
                            rexprs.append((k, to_z3bool(eval(k['region'], ns))))
                        except NameError:
                            continue
                    if rexprs:
                        outside = z3.And([z3.Not(r) for _, r in rexprs])
                        extra = [outside] if bad is True else [bad, outside]
                        for k, r in rexprs:
                            ex2 = [r] if bad is True else [bad, r]
                            if ctx.check(z3.And(ex2)):
                                rec.setdefault('known_hits', []).append(k['id'])
                        if ctx.check(z3.And(extra)):
                            model = ctx.model()
                        else:
                            hit = True
                if hit:
                    continue
                w = {'label': c.label, 'outcome': c.outcome}
                if c.describe:
                    w['what'] = c.describe(model)
                if c.scenario:
                    res = c.scenario(model)
                    pairs = res if isinstance(res, list) else [res]
                    w['scenario'] = pairs[0][0]
                    w['predicted'] = pairs[0][1]
                    if len(pairs) > 1:
                        w['scenarios'] = [p[0] for p in pairs]
                    w['replay_agrees'] = True
                    # replay natively: dev profile (overflow checks) and release
                    for i, (sc, pred) in enumerate(pairs):
                        for prof in ('dev', 'release'):
                            if prof in G['bins']:
                                nat = native(prof).run(sc)
                                w['native_%s_%d' % (prof, i)] = {k: nat.get(k) for k in ('ok', 'panic', 'hang', 'abort')}
                                d = compare_native(pred, nat)
                                if prof == 'dev' and d is not None:
                                    w['replay_agrees'] = False
                                    w['replay_diff'] = d
                rec['status'] = 'violation'
                rec.setdefault('witnesses', []).append(w)
                break
        if rec['status'] == 'solver_disagreement':
            raise _Stop()
        # sample description + optional native validation of a passing path
        if rec['status'] == 'ok':
            c = checks[0]
            h = _stable_hash('%s|%s|%d' % (job.name, prefix, G['seed']))
            want_val = c.scenario is not None and (h % 10000) < G['validate_rate'] * 10000
            want_sample = (h % 97) == 0 or not prefix
            if want_val or want_sample:
                if ctx.check():
                    model = ctx.model()
                    if c.describe and want_sample:
                        rec['sample'] = c.describe(model)
                    if want_val:
                        res = c.scenario(model)
                        for sc, pred in (res if isinstance(res, list) else [res]):
                            nat = native('dev').run(sc)
                            d = compare_native(pred, nat)
                            if d is not None:
                                rec['status'] = 'engine_mismatch'
                                rec['detail'] = {'scenario': sc, 'diff': d}
                                break
                            rec['validated'] += 1
    except _Stop:
        pass
    except Unmodelled as e:
        rec['status'] = 'inconclusive'
        rec['detail'] = str(e)
    except Budget as e:
        rec['status'] = 'budget'
        rec['detail'] = str(e)
    except Infeasible:
        rec['status'] = 'infeasible'
    except Exception as e:
        rec['status'] = 'engine_error'
        rec['detail'] = '%s: %s\n%s' % (type(e).__name__, e, traceback.format_exc()[-1500:])
    rec['queries'] = ctx.queries
    rec['solver_s'] = ctx.solver_time
    return rec, ctx.new_prefixes


def region_namespace(ctx):
    ns = {'And': z3.And, 'Or': z3.Or, 'Not': z3.Not, 'ULT': z3.ULT, 'ULE': z3.ULE, 'UGT': z3.UGT,
          'UGE': z3.UGE, 'If': z3.If, 'BoolVal': z3.BoolVal, 'True': True, 'False': False}
    ns.update(ctx.vars)
    return ns


def work(task):
    """Explore a subtree depth-first up to `limit` paths.  Returns summary + leftover prefixes."""
    job_name, prefix, limit = task
    job = G['jobs'][job_name]
    stack = [list(prefix)]
    out = {'job': job_name, 'paths': 0, 'steps': 0, 'blocks': 0, 'queries': 0, 'solver_s': 0.0,
           'validated': 0, 'xchecked': 0, 'status_counts': {}, 'witnesses': [], 'samples': [], 'problems': [],
           'known_hits': [], 'funcs': set()}
    t0 = time.time()
    while stack and out['paths'] < limit:
        p = stack.pop()
        rec, new = run_one_path(job, p)
        stack.extend(reversed(new))
        out['paths'] += 1
        for k in ('steps', 'blocks', 'queries', 'solver_s', 'validated', 'xchecked'):
            out[k] += rec[k]
        out['funcs'].update(rec['funcs'])
        st = rec['status']
        out['status_counts'][st] = out['status_counts'].get(st, 0) + 1
        if st == 'violation':
            for w in rec['witnesses']:
                if len(out['witnesses']) < 20:
                    out['witnesses'].append(w)
        elif st in ('inconclusive', 'budget', 'engine_error', 'engine_mismatch', 'solver_disagreement'):
            if len(out['problems']) < 5:
                out['problems'].append({'status': st, 'detail': rec.get('detail'), 'prefix': p})
        if 'sample' in rec and len(out['samples']) < 5:
            out['samples'].append(rec['sample'])
        out['known_hits'].extend(rec.get('known_hits', []))
    out['leftover'] = stack
    out['wall'] = time.time() - t0
    out['funcs'] = sorted(out['funcs'])
    return out


def _init_worker():
    _native.clear()


def explore(jobs, workers=None, chunk=40, max_paths=None, deadline=None, progress=None):
    """Run all jobs to exhaustion (or until max_paths / deadline).  Returns aggregated stats."""
    workers = workers or min(16, os.cpu_count() or 4)
    G['jobs'] = {j.name: j for j in jobs}
    agg = {'paths': 0, 'steps': 0, 'blocks': 0, 'queries': 0, 'solver_s': 0.0, 'validated': 0, 'xchecked': 0,
           'status_counts': {}, 'witnesses': [], 'samples': [], 'problems': [], 'known_hits': {},
           'per_job': {}, 'funcs': set(), 'complete': True}
    tasks = [(j.name, [], chunk) for j in jobs]
    ctxm = mp.get_context('fork')
    pending = []
    t0 = time.time()

    def absorb(r):
        agg['paths'] += r['paths']
        for k in ('steps', 'blocks', 'queries', 'solver_s', 'validated', 'xchecked'):
            agg[k] += r[k]
        for k, v in r['status_counts'].items():
            agg['status_counts'][k] = agg['status_counts'].get(k, 0) + v
        pj = agg['per_job'].setdefault(r['job'], {'paths': 0, 'violations': 0})
        pj['paths'] += r['paths']
        pj['violations'] += r['status_counts'].get('violation', 0)
        for w in r['witnesses']:
            w['job'] = r['job']
            key = (r['job'], w.get('label'))
            n = agg.setdefault('_wcount', {}).get(key, 0)
            if n < 2 and len(agg['witnesses']) < 2000:
                agg['_wcount'][key] = n + 1
                agg['witnesses'].append(w)
        for s in r['samples']:
            if len(agg['samples']) < 40:
                agg['samples'].append({'job': r['job'], 'case': s})
        for p in r['problems']:
            p['job'] = r['job']
            if len(agg['problems']) < 20:
                agg['problems'].append(p)
        for k in r['known_hits']:
            agg['known_hits'][k] = agg['known_hits'].get(k, 0) + 1
        agg['funcs'].update(r['funcs'])
        # leftovers of a subtree go to the front: finish what was started before opening new jobs
        for lp in reversed(r['leftover']):
            tasks.insert(0, (r['job'], lp, chunk))

    if workers <= 1:
        while tasks:
            if (max_paths and agg['paths'] >= max_paths) or (deadline and time.time() > deadline):
                agg['complete'] = False
                agg['unexplored'] = len(tasks)
                break
            absorb(work(tasks.pop(0)))
        agg['wall'] = time.time() - t0
        agg['funcs'] = sorted(agg['funcs'])
        return agg

    with ctxm.Pool(workers, initializer=_init_worker) as pool:
        inflight = []
        while tasks or inflight:
            stop = (max_paths and agg['paths'] >= max_paths) or (deadline and time.time() > deadline)
            if stop:
                if tasks:
                    agg['complete'] = False
                    agg['unexplored'] = agg.get('unexplored', 0) + len(tasks)
                tasks.clear()
            while tasks and len(inflight) < workers * 3:
                inflight.append(pool.apply_async(work, (tasks.pop(0),)))
            done = [r for r in inflight if r.ready()]
            if not done:
                time.sleep(0.01)
                continue
            for r in done:
                inflight.remove(r)
                absorb(r.get())
            if progress:
                progress(agg)
    agg['wall'] = time.time() - t0
    agg['funcs'] = sorted(agg['funcs'])
    return agg


# --------------------------------------------------------------------------- set-up shared by all checks

def setup(tier='quick', need_release=True):
    t = time.time()
    mir, secs, cached = build.mir_dump()
    bins = build.build_replay(('dev', 'release') if need_release else ('dev',))
    tables.load(build.tables_file(bins['dev']))
    prog = Program(open(mir).read(), build.REPO)
    G['prog'] = prog
    G['L'] = Layout(prog)
    G['bins'] = bins
    G['tier'] = tier
    G['seed'] = int(os.environ.get('VERIF_SEED', '0') or 0)
    kf = os.path.join(VERIF, 'known_findings.json')
    if os.path.exists(kf):
        with open(kf) as f:
            G['known'] = json.load(f).get('findings', [])
    return {'mir_file': mir, 'mir_seconds': secs, 'mir_cached': cached, 'setup_seconds': time.time() - t,
            'mir_bodies': len(prog.bodies)}
