"""Screen states: engine value <-> JSON snapshot (the format mt-replay prints), scenario execution
inside the engine, and construction of symbolic pre-states."""
import z3

from .values import *
from .engine import Engine, Ctx, int_eq, bool_and, bool_or, bool_not, to_z3bool
from . import stdlib

FLAG_NAMES = ['bold', 'italics', 'underscore', 'strikethrough', 'reverse', 'blink']
FLAG_BITS = {'bold': 1, 'italics': 2, 'underscore': 4, 'strikethrough': 8, 'reverse': 16, 'blink': 32}

MODES = {'LNM': 20, 'IRM': 4, 'DECTCEM': 25 << 5, 'DECSCNM': 5 << 5, 'DECOM': 6 << 5, 'DECAWM': 7 << 5,
         'DECCOLM': 3 << 5}


class Layout:
    """Field indices read from the source structs (never hard-coded)."""

    def __init__(self, prog):
        s = prog.src.structs
        self.screen = {n: i for i, n in enumerate(s['Screen'])}
        self.cursor = {n: i for i, n in enumerate(s['Cursor'])}
        self.char = {n: i for i, n in enumerate(s['CharOpts'])}
        self.margins = {n: i for i, n in enumerate(s['Margins'])}
        self.savepoint = {n: i for i, n in enumerate(s['Savepoint'])}
        self.screen_n = len(s['Screen'])
        self.charset_variants = prog.src.enums['Charset']


# --------------------------------------------------------------------------- evaluation under a model

class Ev:
    """Evaluates symbolic leaves under a z3 model (or requires concreteness when model is None)."""

    def __init__(self, model=None):
        self.m = model

    def int(self, v):
        x = v.v if type(v) is Int else v
        if type(x) is int:
            return x
        if self.m is None:
            raise Unmodelled('symbolic value in concrete snapshot: %s' % x)
        r = self.m.eval(x, model_completion=True)
        return r.as_long()

    def bool(self, b):
        if type(b) is bool:
            return b
        if self.m is None:
            raise Unmodelled('symbolic bool in concrete snapshot: %s' % b)
        return z3.is_true(self.m.eval(b, model_completion=True))

    def str(self, s):
        s = deref_all(s)
        if type(s) is SChoice:
            for g, alt in s.alts:
                if self.bool(g):
                    return self.str(alt)
            raise Unmodelled('no SChoice alternative holds in the model')
        return ''.join(chr(self.int(c)) for c in s.c)


def cell_json(L, ev, c):
    f = c.f
    fl = 0
    for n in FLAG_NAMES:
        if ev.bool(f[L.char[n]]):
            fl |= FLAG_BITS[n]
    return [ev.str(f[L.char['data']]), ev.str(f[L.char['fg']]), ev.str(f[L.char['bg']]), fl]


def cursor_json(L, ev, c):
    return {'x': ev.int(c.f[L.cursor['x']]), 'y': ev.int(c.f[L.cursor['y']]),
            'hidden': ev.bool(c.f[L.cursor['hidden']]), 'attr': cell_json(L, ev, c.f[L.cursor['attr']])}


def map_items(ev, m):
    """Present (key, value) pairs of a MapV under ev, keys evaluated."""
    out = []
    for (k, p, v) in m.e:
        if ev.bool(p):
            out.append((k, v))
    return out


_charset_names = {}


def charset_name(eng, ev, arr):
    """Name ('B','0','U','V') of a [char;256] value, or the list of code points."""
    if type(arr) is SChoice:
        raise Unmodelled('charset choice')
    if type(arr) is CharsetChoice:
        for g, name, _ in arr.alts:
            if ev.bool(g):
                return name
        raise Unmodelled('no charset alternative holds')
    cps = tuple(ev.int(x) for x in arr.f)
    if not _charset_names:
        maps = deref_all(eng.lazy_value('MAPS'))
        for (k, p, v) in maps.e:
            _charset_names[tuple(x.v for x in v.f)] = deref_all(k).py()
    return _charset_names.get(cps, list(cps))


class CharsetChoice:
    """A [char;256] table that is one of the named tables under mutually exclusive guards."""
    __slots__ = ('alts',)

    def __init__(self, alts):
        self.alts = tuple(alts)   # (guard, name, Agg)


def snapshot(eng, L, scr, model=None):
    ev = Ev(model)
    f = scr.f
    S = L.screen
    buf = {}
    for (y, row) in map_items(ev, f[S['buffer']]):
        r = {}
        for (x, cell) in map_items(ev, row):
            r[str(ev.int(x))] = cell_json(L, ev, cell)
        buf[str(ev.int(y))] = r
    mg = f[S['margins']]
    disc = ev.int(mg.disc) if type(mg.disc) is not int else mg.disc
    if disc == 1:
        mm = mg.pay[1][0]
        margins = [ev.int(mm.f[L.margins['top']]), ev.int(mm.f[L.margins['bottom']])]
    else:
        margins = None
    sc = f[S['saved_columns']]
    scd = ev.int(sc.disc) if type(sc.disc) is not int else sc.disc
    sps = []
    for sp in f[S['savepoints']].items:
        P = L.savepoint
        sps.append({'cursor': cursor_json(L, ev, sp.f[P['cursor']]),
                    'g0': charset_name(eng, ev, sp.f[P['g0_charset']]),
                    'g1': charset_name(eng, ev, sp.f[P['g1_charset']]),
                    'charset': ev.int(sp.f[P['charset']].disc) if type(sp.f[P['charset']].disc) is not int else sp.f[P['charset']].disc,
                    'origin': ev.bool(sp.f[P['origin']]), 'wrap': ev.bool(sp.f[P['wrap']])})
    cs = f[S['charset']]
    return {
        'columns': ev.int(f[S['columns']]), 'lines': ev.int(f[S['lines']]),
        'cursor': cursor_json(L, ev, f[S['cursor']]),
        'margins': margins,
        'mode': sorted(ev.int(k) for k, _ in map_items(ev, f[S['mode']])),
        'dirty': sorted(ev.int(k) for k, _ in map_items(ev, f[S['dirty']])),
        'tabstops': sorted(ev.int(k) for k, _ in map_items(ev, f[S['tabstops']])),
        'buffer': buf,
        'title': ev.str(f[S['title']]), 'icon_name': ev.str(f[S['icon_name']]),
        'charset': ev.int(cs.disc) if type(cs.disc) is not int else cs.disc,
        'g0': charset_name(eng, ev, f[S['g0_charset']]), 'g1': charset_name(eng, ev, f[S['g1_charset']]),
        'saved_columns': ev.int(sc.pay[1][0]) if scd == 1 else None,
        'savepoints': sps,
    }


# --------------------------------------------------------------------------- scenario execution in the engine

def opt_u32(n):
    if n is None:
        return NONE
    if type(n) is Int:
        return some(n)
    if type(n) is Enum:
        return n
    return some(Int('u32', n))


def slice_u32(ns):
    return Agg('[]', tuple(n if type(n) is Int else Int('u32', n) for n in ns))


NOARG = ['alignment_display', 'reset', 'index', 'linefeed', 'reverse_index', 'set_tab_stop', 'save_cursor',
         'restore_cursor', 'shift_out', 'shift_in', 'bell', 'backspace', 'tab', 'cariage_return']
ONEOPT = ['insert_characters', 'cursor_up', 'cursor_down', 'cursor_forward', 'cursor_back', 'cursor_down1',
          'cursor_up1', 'cursor_to_column', 'insert_lines', 'delete_lines', 'delete_characters',
          'erase_characters', 'cursor_to_line', 'clear_tab_stop']


class Session:
    """A Screen behind Arc<Mutex<..>> inside the engine, optionally with a Parser / ByteParser."""

    def __init__(self, eng, L, screen=None, cols=None, lines=None, listener='Screen'):
        self.eng = eng
        self.L = L
        self.listener = listener
        if listener == 'Screen':
            if screen is None:
                screen = eng.call_path('Screen::new', [Int('u32', cols), Int('u32', lines)])
            self.cell = Cell(Agg('Mutex', (False, screen)), tag='arc')
        else:
            self.cell = Cell(Agg('Mutex', (False, Agg(listener, ()))), tag='arc')
        self.arc = ArcV(self.cell)
        self.sref = Ref(self.cell, (0, 1))
        self.parser = None
        self.bparser = None
        self.out = []

    @property
    def screen(self):
        return self.cell.locals[0].f[1]

    @screen.setter
    def screen(self, v):
        self.cell.locals[0] = Agg('Mutex', (False, v))

    def ts(self):
        return {'T': self.listener}

    def ensure_parser(self):
        if self.parser is None and self.bparser is None:
            p = self.eng.call_path("Parser::<'_, T>::new", [self.arc], self.ts())
            self.parser = Cell(p, tag='parser')

    def ensure_bparser(self):
        if self.bparser is None:
            p = self.eng.call_path("ByteParser::<'_, T>::new", [self.arc], self.ts())
            self.bparser = Cell(p, tag='bparser')

    def op(self, name, *args):
        """Direct listener call with engine values as arguments."""
        eng = self.eng
        if self.cell.locals[0].f[0] is not False:
            raise Panic('DEADLOCK: listener mutex is still locked')
        if name == 'resize':
            return eng.call_path('Screen::resize', [self.sref] + list(args))
        if self.listener != 'Screen':
            return eng.py_listeners[self.listener].event(eng, name, [self.sref] + list(args))
        return eng.call_path('<Screen as ParserListener>::' + name, [self.sref] + list(args))

    def feed(self, s):
        """s: Str (may contain symbolic chars)."""
        if self.bparser is not None:
            raise Unmodelled('feed(str) on byte parser')
        self.ensure_parser()
        self.eng.call_path("Parser::<'_, T>::feed", [Ref(self.parser, (0,)), s], self.ts())

    def feed_bytes(self, bs):
        self.ensure_bparser()
        self.eng.call_path("ByteParser::<'_, T>::feed", [Ref(self.bparser, (0,)), Agg('[]', tuple(bs))], self.ts())

    def step(self, st):
        """Execute one JSON-style step (same format mt-replay accepts)."""
        name = st[0]
        a = lambda i: st[i] if i < len(st) else None
        if name in NOARG:
            self.op(name)
        elif name in ONEOPT:
            self.op(name, opt_u32(a(1)))
        elif name in ('erase_in_display', 'erase_in_line', 'report_device_attributes'):
            self.op(name, opt_u32(a(1)), NONE)
        elif name in ('cursor_position', 'set_margins'):
            self.op(name, opt_u32(a(1)), opt_u32(a(2)))
        elif name in ('set_mode', 'reset_mode'):
            self.op(name, slice_u32(a(1)), a(2))
        elif name == 'select_graphic_rendition':
            self.op(name, slice_u32(a(1)))
        elif name in ('draw', 'set_title', 'set_icon_name'):
            self.op(name, a(1) if type(a(1)) is Str else Str.of(a(1)))
        elif name == 'define_charset':
            self.op(name, Str.of(a(1)), Str.of(a(2)))
        elif name == 'display':
            v = self.op('display')
            self.out.append(v)
        elif name == 'resize':
            self.op('resize', opt_u32(a(1)), opt_u32(a(2)))
        elif name == 'parser':
            self.parser = None
            self.bparser = None
            self.ensure_parser()
        elif name == 'byte_parser':
            self.parser = None
            self.ensure_bparser()
        elif name == 'feed':
            s = a(1) if type(a(1)) is Str else Str.of(a(1))
            if self.bparser is not None:
                self.feed_bytes([Int('u8', b) for b in s.py().encode('utf-8')])
            else:
                self.feed(s)
        elif name == 'feed_cps':
            self.feed(Str(tuple(a(1))))
        elif name == 'feed_bytes':
            if self.parser is not None and self.bparser is None:
                self.feed(Str(tuple(b if type(b) is int else b.v for b in a(1))))
            else:
                self.feed_bytes([b if type(b) is Int else Int('u8', b) for b in a(1)])
        elif name == 'set_use_utf8':
            self.ensure_parser()
            self.eng.call_path("Parser::<'_, T>::set_use_utf8", [Ref(self.parser, (0,)), a(1)], self.ts())
        elif name == 'select_other_charset':
            self.ensure_bparser()
            self.eng.call_path("ByteParser::<'_, T>::select_other_charset",
                               [Ref(self.bparser, (0,)), Str.of(a(1))], self.ts())
        elif name == 'snapshot':
            self.out.append(('snapshot', self.screen))
        elif name in ('escape_dispatch', 'basic_dispatch'):
            self.eng.call_path('<T as ParserListener>::' + name, [self.sref, Str.of(a(1))], self.ts())
        elif name == 'csi_dispatch':
            self.eng.call_path('<T as ParserListener>::csi_dispatch',
                               [self.sref, Str.of(a(1)), slice_u32(a(2)), a(3)], self.ts())
        else:
            raise Unmodelled('scenario step ' + name)


class Recorder:
    """Python-side ParserListener that records (name, args): the recogniser's observable output."""

    def __init__(self):
        self.events = []

    def event(self, eng, name, args):
        vals = []
        for a in args[1:]:
            vals.append(_rec_val(eng, a))
        self.events.append((name, tuple(vals)))
        if name == 'display':
            return VecV()
        return UNIT


def _rec_val(eng, a):
    a0 = a
    if type(a) is Ref:
        try:
            items = stdlib.seq_items(eng, a)
            return ('list', tuple(deref_all(x) for x in items))
        except Unmodelled:
            a = deref_all(a)
    if type(a) is Agg and a.name == '[]':
        return ('list', tuple(a.f))
    return a
