"""mirsym: forking symbolic execution of rustc MIR with z3.

Exploration is by re-execution: a path is identified by its list of decisions; `Ctx.choose`
replays the prefix and, past it, asks the solver which alternatives are feasible, continues with
the first and queues the others.  Nothing is copied; values are immutable."""
import re
import time
import z3

from .values import *
from . import mirparse
from .mirparse import top_level_split, find_top_level, match_paren
from .srcinfo import SrcInfo

TRUE = z3.BoolVal(True)
FALSE = z3.BoolVal(False)


# =========================================================================== path context

class Ctx:
    """One path of the exploration."""

    def __init__(self, prefix=(), timeout_ms=20000):
        self.prefix = list(prefix)
        self.pos = 0
        self.decisions = []
        self.new_prefixes = []
        self.pc = []              # z3 constraints of this path
        self.solver = z3.Solver()
        self.solver.set('timeout', timeout_ms)
        self.timeout_ms = timeout_ms
        self.synced = 0
        self.queries = 0
        self.solver_time = 0.0
        self.vars = {}
        self.notes = []
        self.known = []           # (symbol, numeral) pairs implied by the path condition
        self._known_ids = set()
        self._sub = None
        self._sub_n = -1

    # -- symbolic inputs
    def bvvar(self, name, bits):
        v = self.vars.get(name)
        if v is None:
            v = z3.BitVec(name, bits)
            self.vars[name] = v
        return v

    def boolvar(self, name):
        v = self.vars.get(name)
        if v is None:
            v = z3.Bool(name)
            self.vars[name] = v
        return v

    def assume(self, c):
        if c is True:
            return
        if c is False:
            raise Infeasible()
        self.pc.append(c)
        self._learn(c)

    def _learn(self, c):
        """Remember `symbol == numeral` facts so later tests on that symbol are decided without the solver."""
        try:
            if z3.is_eq(c) and c.num_args() == 2:
                a, b = c.arg(0), c.arg(1)
                if z3.is_bv_value(a):
                    a, b = b, a
                if z3.is_bv_value(b) and z3.is_const(a) and a.decl().kind() == z3.Z3_OP_UNINTERPRETED:
                    if a.get_id() not in self._known_ids:
                        self._known_ids.add(a.get_id())
                        self.known.append((a, b))
            elif z3.is_const(c) and z3.is_bool(c) and c.decl().kind() == z3.Z3_OP_UNINTERPRETED:
                if c.get_id() not in self._known_ids:
                    self._known_ids.add(c.get_id())
                    self.known.append((c, TRUE))
            elif z3.is_not(c):
                a = c.arg(0)
                if z3.is_const(a) and a.decl().kind() == z3.Z3_OP_UNINTERPRETED and a.get_id() not in self._known_ids:
                    self._known_ids.add(a.get_id())
                    self.known.append((a, FALSE))
        except Exception:
            pass

    def _decide(self, c):
        """Try to decide c from known equalities: True / False / None."""
        n = len(self.known)
        if not n:
            return None
        # (z3.substitute converts the whole pair list on every call; with hundreds of known facts that
        # dominated the run time, so the ctypes arrays are kept and extended only when facts are added)
        if self._sub_n != n:
            fr = (z3.Ast * n)()
            to = (z3.Ast * n)()
            for i, (a_, b_) in enumerate(self.known):
                fr[i] = a_.as_ast()
                to[i] = b_.as_ast()
            self._sub = (fr, to)
            self._sub_n = n
        r = z3.simplify(z3.BoolRef(z3.Z3_substitute(c.ctx.ref(), c.as_ast(), n, self._sub[0], self._sub[1]), c.ctx))
        if z3.is_true(r):
            return True
        if z3.is_false(r):
            return False
        return None

    def resolve_int(self, v):
        """An Int whose symbolic value is fixed by the known `symbol == numeral` facts of this path, made
        concrete (so that map look-ups with such a key stay syntactic); otherwise returned unchanged."""
        x = v.v
        n = len(self.known)
        if type(x) is int or not n:
            return v
        if self._sub_n != n:
            self._decide(z3.BoolVal(True))
        r = z3.simplify(z3.BitVecRef(z3.Z3_substitute(x.ctx.ref(), x.as_ast(), n, self._sub[0], self._sub[1]), x.ctx))
        if z3.is_bv_value(r):
            return Int(v.ty, r.as_long())
        return v

    def _sync(self):
        if self.synced < len(self.pc):
            for c in self.pc[self.synced:]:
                self.solver.add(c)
            self.synced = len(self.pc)

    def check(self, extra=None):
        self._sync()
        t = time.time()
        self.queries += 1
        if extra is None:
            r = self.solver.check()
        else:
            r = self.solver.check(extra)
        if r == z3.unknown:
            # the per-query time limit was hit (typically on a loaded machine): one more attempt with a fresh
            # solver and a ten times larger limit before the path is given up as inconclusive
            s2 = z3.Solver()
            s2.set('timeout', 10 * self.timeout_ms)
            for c in self.pc:
                s2.add(c)
            self.queries += 1
            r = s2.check() if extra is None else s2.check(extra)
            if r == z3.unknown:
                self.solver_time += time.time() - t
                raise Unmodelled('solver unknown: %s' % s2.reason_unknown())
            self.retried = getattr(self, 'retried', 0) + 1
            self._model_solver = s2
        else:
            self._model_solver = self.solver
        self.solver_time += time.time() - t
        return r == z3.sat

    def model(self):
        return getattr(self, '_model_solver', self.solver).model()

    def choose(self, conds):
        """conds: mutually exclusive, jointly exhaustive conditions (python bools or z3 Bools).
        Returns the index of the alternative this path follows."""
        cand = []
        for i, c in enumerate(conds):
            if c is True:
                return i
            if c is False:
                continue
            if z3.is_true(c):
                return i
            if z3.is_false(c):
                continue
            cand.append(i)
        if not cand:
            raise Infeasible()
        if len(cand) == 1:
            return cand[0]
        if self.known:
            cand2 = []
            for i in cand:
                d = self._decide(conds[i])
                if d is True:
                    return i
                if d is None:
                    cand2.append(i)
            if not cand2:
                raise Infeasible()
            if len(cand2) == 1:
                return cand2[0]
            cand = cand2
        if self.pos < len(self.prefix):
            idx = self.prefix[self.pos]
            self.pos += 1
            self.decisions.append(idx)
            self.pc.append(conds[idx])
            self._learn(conds[idx])
            return idx
        feas = []
        for i in cand:
            if self.check(conds[i]):
                feas.append(i)
        if not feas:
            raise Infeasible()
        first = feas[0]
        for j in feas[1:]:
            self.new_prefixes.append(self.decisions + [j])
        self.decisions.append(first)
        self.pos += 1
        self.prefix.append(first)
        if len(feas) > 1:
            self.pc.append(conds[first])
        self._learn(conds[first])
        return first

    def branch(self, c):
        """True/False for a (possibly symbolic) boolean."""
        if c is True or c is False:
            return c
        if z3.is_true(c):
            return True
        if z3.is_false(c):
            return False
        return self.choose([c, z3.Not(c)]) == 0

    def concretize(self, x, limit=4096):
        """Fork over all feasible values of the bit-vector term x; returns a python int."""
        if type(x) is int:
            return x
        s = z3.simplify(x)
        if z3.is_bv_value(s):
            return s.as_long()
        if self.pos < len(self.prefix):
            val = self.prefix[self.pos]
            self.pos += 1
            self.decisions.append(val)
            self.pc.append(x == val)
            self._learn(x == val)
            return val
        vals = []
        self._sync()
        self.solver.push()
        try:
            while True:
                t = time.time()
                self.queries += 1
                r = self.solver.check()
                self.solver_time += time.time() - t
                if r == z3.unknown:
                    raise Unmodelled('solver unknown')
                if r != z3.sat:
                    break
                v = self.solver.model().eval(x, model_completion=True).as_long()
                vals.append(v)
                if len(vals) > limit:
                    raise Unmodelled('unbounded symbolic value in concretize: %s' % x)
                self.solver.add(x != v)
        finally:
            self.solver.pop()
        if not vals:
            raise Infeasible()
        vals.sort()
        first = vals[0]
        for v in vals[1:]:
            self.new_prefixes.append(self.decisions + [v])
        self.decisions.append(first)
        self.pos += 1
        self.prefix.append(first)
        if len(vals) > 1:
            self.pc.append(x == first)
        self._learn(x == first)
        return first

    def must(self, c):
        """Is c implied by the path condition?  (no fork)"""
        if c is True:
            return True
        if c is False:
            return False
        return not self.check(z3.Not(c))


# =========================================================================== integer semantics

def _b(x):
    return x


def bool_and(a, b):
    if a is False or b is False:
        return False
    if a is True:
        return b
    if b is True:
        return a
    return z3.And(a, b)


def bool_or(a, b):
    if a is True or b is True:
        return True
    if a is False:
        return b
    if b is False:
        return a
    return z3.Or(a, b)


def bool_not(a):
    if a is True:
        return False
    if a is False:
        return True
    return z3.Not(a)


def bool_eq(a, b):
    if type(a) is bool and type(b) is bool:
        return a == b
    if type(a) is bool:
        return b if a else bool_not(b)
    if type(b) is bool:
        return a if b else bool_not(a)
    return a == b


def to_z3bool(a):
    if a is True:
        return TRUE
    if a is False:
        return FALSE
    return a


def int_eq(a, b):
    """Equality of two Int (or python int) as python bool / z3 Bool."""
    av = a.v if type(a) is Int else a
    bvv = b.v if type(b) is Int else b
    if type(av) is int and type(bvv) is int:
        return av == bvv
    if type(av) is int:
        av = z3.BitVecVal(av, bvv.size())
    elif type(bvv) is int:
        bvv = z3.BitVecVal(bvv, av.size())
    r = av == bvv
    return r


def _cmp(op, ty, a, b):
    if type(a) is int and type(b) is int:
        return {'Lt': a < b, 'Le': a <= b, 'Gt': a > b, 'Ge': a >= b, 'Eq': a == b, 'Ne': a != b}[op]
    bits = BITS[ty]
    if type(a) is int:
        a = z3.BitVecVal(a, bits)
    if type(b) is int:
        b = z3.BitVecVal(b, bits)
    if op == 'Eq':
        return a == b
    if op == 'Ne':
        return a != b
    if ty in SIGNED:
        return {'Lt': a < b, 'Le': a <= b, 'Gt': a > b, 'Ge': a >= b}[op]
    return {'Lt': z3.ULT(a, b), 'Le': z3.ULE(a, b), 'Gt': z3.UGT(a, b), 'Ge': z3.UGE(a, b)}[op]


def _range(ty):
    b = BITS[ty]
    if ty in SIGNED:
        return -(1 << (b - 1)), (1 << (b - 1)) - 1
    return 0, (1 << b) - 1


def binop(op, a, b):
    """MIR binary operation on two values."""
    ta = type(a)
    if ta is Int:
        ty = a.ty
        av = a.v
        bvv = b.v if type(b) is Int else b
        if op in ('Eq', 'Ne', 'Lt', 'Le', 'Gt', 'Ge'):
            return _cmp(op, ty, av, bvv)
        conc = type(av) is int and type(bvv) is int
        bits = BITS[ty]
        if op in ('Shl', 'Shr', 'ShlUnchecked', 'ShrUnchecked'):
            if conc:
                sh = bvv % bits
                if op.startswith('Shl'):
                    return mk(ty, av << sh)
                return mk(ty, av >> sh)   # python >> is arithmetic for negatives: matches signed
            x = bv(a)
            if type(bvv) is int:
                s = z3.BitVecVal(bvv % bits, bits)
            else:
                sb = bvv.size()
                if sb < bits:
                    s = z3.ZeroExt(bits - sb, bvv)
                elif sb > bits:
                    s = z3.Extract(bits - 1, 0, bvv)
                else:
                    s = bvv
                s = s & (bits - 1)
            if op.startswith('Shl'):
                return Int(ty, x << s)
            if ty in SIGNED:
                return Int(ty, x >> s)
            return Int(ty, z3.LShR(x, s))
        if op in ('AddWithOverflow', 'SubWithOverflow', 'MulWithOverflow'):
            lo, hi = _range(ty)
            if conc:
                r = {'A': av + bvv, 'S': av - bvv, 'M': av * bvv}[op[0]]
                return Agg('tuple', (mk(ty, r), not (lo <= r <= hi)))
            x, y = bv(a), (bv(b) if type(b) is Int else z3.BitVecVal(bvv, bits))
            signed = ty in SIGNED
            if op[0] == 'A':
                r = x + y
                if signed:
                    ovf = z3.Not(z3.And(z3.BVAddNoOverflow(x, y, True), z3.BVAddNoUnderflow(x, y)))
                else:
                    ovf = z3.Not(z3.BVAddNoOverflow(x, y, False))
            elif op[0] == 'S':
                r = x - y
                if signed:
                    ovf = z3.Not(z3.And(z3.BVSubNoOverflow(x, y), z3.BVSubNoUnderflow(x, y, True)))
                else:
                    ovf = z3.ULT(x, y)
            else:
                r = x * y
                if signed:
                    ovf = z3.Not(z3.And(z3.BVMulNoOverflow(x, y, True), z3.BVMulNoUnderflow(x, y)))
                else:
                    ovf = z3.Not(z3.BVMulNoOverflow(x, y, False))
            return Agg('tuple', (Int(ty, r), ovf))
        if conc:
            if op in ('Add', 'AddUnchecked'):
                return mk(ty, av + bvv)
            if op in ('Sub', 'SubUnchecked'):
                return mk(ty, av - bvv)
            if op in ('Mul', 'MulUnchecked'):
                return mk(ty, av * bvv)
            if op == 'Div':
                if bvv == 0:
                    raise Panic('attempt to divide by zero')
                q = abs(av) // abs(bvv)
                return mk(ty, q if (av < 0) == (bvv < 0) else -q)
            if op == 'Rem':
                if bvv == 0:
                    raise Panic('attempt to calculate the remainder with a divisor of zero')
                r = abs(av) % abs(bvv)
                return mk(ty, r if av >= 0 else -r)
            if op == 'BitAnd':
                return mk(ty, av & bvv)
            if op == 'BitOr':
                return mk(ty, av | bvv)
            if op == 'BitXor':
                return mk(ty, av ^ bvv)
            raise Unmodelled('binop ' + op)
        x, y = bv(a), (bv(b) if type(b) is Int else z3.BitVecVal(bvv, bits))
        if op in ('Add', 'AddUnchecked'):
            return Int(ty, x + y)
        if op in ('Sub', 'SubUnchecked'):
            return Int(ty, x - y)
        if op in ('Mul', 'MulUnchecked'):
            return Int(ty, x * y)
        if op == 'Div':
            return Int(ty, (x / y) if ty in SIGNED else z3.UDiv(x, y))
        if op == 'Rem':
            return Int(ty, z3.SRem(x, y) if ty in SIGNED else z3.URem(x, y))
        if op == 'BitAnd':
            return Int(ty, x & y)
        if op == 'BitOr':
            return Int(ty, x | y)
        if op == 'BitXor':
            return Int(ty, x ^ y)
        raise Unmodelled('binop ' + op)
    # booleans
    if ta is bool or isinstance(a, z3.BoolRef):
        if op == 'Eq':
            return bool_eq(a, b)
        if op == 'Ne':
            return bool_not(bool_eq(a, b))
        if op == 'BitAnd':
            return bool_and(a, b)
        if op == 'BitOr':
            return bool_or(a, b)
        if op == 'BitXor':
            return bool_not(bool_eq(a, b))
        if op in ('Lt', 'Le', 'Gt', 'Ge'):
            # false < true
            x, y = a, b
            if op == 'Lt':
                return bool_and(bool_not(x), y)
            if op == 'Le':
                return bool_or(bool_not(x), y)
            if op == 'Gt':
                return bool_and(x, bool_not(y))
            return bool_or(x, bool_not(y))
    raise Unmodelled('binop %s on %r, %r' % (op, a, b))


def int_cast(a, ty):
    """IntToInt cast."""
    if type(a) is bool:
        return mk(ty, 1 if a else 0)
    if isinstance(a, z3.BoolRef):
        return Int(ty, z3.If(a, z3.BitVecVal(1, BITS[ty]), z3.BitVecVal(0, BITS[ty])))
    if type(a.v) is int:
        return mk(ty, a.v)
    fb, tb = BITS[a.ty], BITS[ty]
    x = a.v
    if tb == fb:
        return Int(ty, x)
    if tb < fb:
        return Int(ty, z3.Extract(tb - 1, 0, x))
    if a.ty in SIGNED:
        return Int(ty, z3.SignExt(tb - fb, x))
    return Int(ty, z3.ZeroExt(tb - fb, x))


# =========================================================================== names

def strip_generics(seg):
    """`HashMap<u32, X>` -> `HashMap`; `[u32]` -> `[]`; `&str` stays."""
    seg = seg.strip()
    if seg.startswith('['):
        return '[]'
    k = seg.find('<')
    if k > 0:
        return seg[:k]
    return seg


def type_base(t):
    """Short base name of a type: last path segment without generics, refs stripped."""
    t = t.strip()
    while t.startswith('&'):
        t = t[1:].strip()
        if t.startswith("'"):
            t = t.split(' ', 1)[1] if ' ' in t else t
        if t.startswith('mut '):
            t = t[4:]
    if t.startswith('['):
        return '[]'
    if t.startswith('{closure@'):
        return t
    if t.startswith('dyn '):
        return t
    segs = top_level_split(t, '::')
    last = segs[-1]
    if last.startswith('<') and len(segs) > 1:
        last = segs[-2]
    return strip_generics(last)


_impl_re = re.compile(r'<impl at ([^:>]+):(\d+):(\d+): (\d+):(\d+)>')


class CallTarget:
    __slots__ = ('kind', 'body', 'key', 'self_ty', 'generics', 'tsubst', 'raw', 'method')

    def __init__(self, kind, **kw):
        self.kind = kind
        self.body = None
        self.key = None
        self.self_ty = None
        self.generics = ()
        self.tsubst = None
        self.raw = None
        self.method = None
        for k, v in kw.items():
            setattr(self, k, v)


class Frame:
    __slots__ = ('body', 'locals', 'bb', 'dest', 'ret_bb', 'tsubst', 'pending')

    def __init__(self, body, tsubst):
        self.body = body
        self.locals = [None] * body.nlocals
        self.bb = 0
        self.dest = None
        self.ret_bb = None
        self.tsubst = tsubst
        self.pending = None


class YieldSignal(Exception):
    def __init__(self, value):
        self.value = value


class Program:
    """Parsed MIR + source facts + name indices.  Immutable after construction; shared by all paths."""

    def __init__(self, mir_text, repo):
        self.src = SrcInfo(repo)
        self.bodies = mirparse.parse_mir(mir_text)
        self.by_name = {}
        self.impl_index = {}      # (self_base, trait_or_None, method) -> Body
        self.closure_index = {}   # '{closure@...}' -> Body
        self.lazy_init = {}       # static type name -> Body of __static_ref_initialize
        self.consts = {}          # name -> Body
        self.const_cache = {}
        self.lazy_cache = {}
        self.call_cache = {}
        for k, vs in self.src.enums.items():
            VARIANTS.setdefault(k, vs)
        pending_lazy = None
        for b in self.bodies:
            if b.kind == 'fn':
                self.by_name.setdefault(b.name, b)
                m = _impl_re.search(b.name)
                if m:
                    rest = b.name[m.end():]
                    if rest.startswith('::'):
                        rest = rest[2:]
                    rel = m.group(1)
                    if rel.startswith('src/'):
                        info = self.src.impl_info(rel, int(m.group(2)), int(m.group(3)), int(m.group(4)),
                                                  int(m.group(5)))
                        if info and '::' not in rest:
                            self.impl_index.setdefault((info[0], info[1], rest), b)
                    else:
                        # lazy_static expansion
                        if rest == 'deref' and b.args:
                            pending_lazy = type_base(b.args[0][1])
                        elif rest == 'deref::__static_ref_initialize' and pending_lazy:
                            self.lazy_init[pending_lazy] = b
                            pending_lazy = None
                if b.args:
                    t0 = b.args[0][1]
                    k = t0.find('{closure@')
                    if k >= 0 and b.name.endswith('}'):
                        e = match_paren(t0, k)
                        self.closure_index.setdefault(t0[k:e + 1], b)
            else:
                self.consts.setdefault(b.name, b)
                # also index by the path without leading module
                segs = top_level_split(b.name, '::')
                if len(segs) > 1 and not segs[-1].startswith('promoted') and not segs[-1].startswith('{'):
                    self.consts.setdefault(segs[-1], b)

        self._fix_closure_aggregates()

    def _closure_ncaptures(self, body):
        """Number of captured places of a closure body (highest field index of _1 used anywhere)."""
        n = 0
        tys = {}

        def visit_place(pl):
            nonlocal n
            if pl[1] != 1:
                return
            proj = pl[2]
            i = 0
            if proj and proj[0][0] == 'deref':
                i = 1
            if i < len(proj) and proj[i][0] == 'field':
                n = max(n, proj[i][1] + 1)
                tys[proj[i][1]] = proj[i][2]

        def visit(x):
            if isinstance(x, tuple):
                if x and x[0] == 'place':
                    visit_place(x)
                else:
                    for y in x:
                        visit(y)
            elif isinstance(x, list):
                for y in x:
                    visit(y)

        for stmts, term in body.blocks.values():
            visit(stmts)
            visit(term)
        for d in body.debug.values():
            for m in re.finditer(r'\(\*?_1\)?\.(\d+): ', d):
                n = max(n, int(m.group(1)) + 1)
        return n, tys

    def _fix_closure_aggregates(self):
        """rustc's MIR printer zips the *variables* a closure mentions with its captured *places*, so a
        closure capturing several disjoint fields of one variable is printed with too few operands.
        The missing operands are the temporaries assigned immediately before the aggregate; they are
        reconstructed here and checked against the field types the closure body uses."""
        for b in self.bodies:
            for bbk, (stmts, term) in b.blocks.items():
                for si, st in enumerate(stmts):
                    if st[0] != 'assign' or st[2][0] != 'agg' or st[2][1] != 'struct':
                        continue
                    name = st[2][2]
                    if not name.startswith('{closure@'):
                        continue
                    cb = self.closure_index.get(name)
                    if cb is None:
                        continue
                    n, tys = self._closure_ncaptures(cb)
                    ops = st[2][3]
                    if len(ops) >= n:
                        continue
                    prev = []
                    k = si - 1
                    while k >= 0 and len(prev) < n:
                        ps = stmts[k]
                        if ps[0] == 'assign' and not ps[1][2]:
                            prev.insert(0, ps[1][1])
                        else:
                            break
                        k -= 1
                    okk = len(prev) == n
                    if okk:
                        for j, o in enumerate(ops):
                            if o[0] not in ('move', 'copy') or o[1][2] or o[1][1] != prev[j]:
                                okk = False
                    if not okk:
                        stmts[si] = ('assign', st[1], ('agg', 'struct', name + '#LOSSY', ops, st[2][4]))
                        continue
                    newops = list(ops) + [('move', ('place', l, ())) for l in prev[len(ops):]]
                    stmts[si] = ('assign', st[1], ('agg', 'struct', name, newops, None))

    def find_const(self, name):
        b = self.consts.get(name)
        if b is not None:
            return b
        segs = top_level_split(name, '::')
        for k in range(1, len(segs)):
            b = self.consts.get('::'.join(segs[k:]))
            if b is not None:
                return b
        return None


def parse_callee(path):
    """-> (self_ty or None, trait or None, [segments without generics], generics-of-last-segment)"""
    path = path.strip()
    self_ty = trait = None
    gen = ()
    qualified = path.startswith('<') and not path.startswith('<impl ')
    if path.startswith('<impl '):
        # `<impl Trait<..> as OtherTrait>::method` (an `impl Trait` argument type) is a qualified path too
        e0 = match_paren(path, 0)
        qualified = e0 > 0 and find_top_level(path[1:e0], ' as ') >= 0
    if qualified:
        e = match_paren(path, 0)
        inner = path[1:e]
        rest = path[e + 1:]
        k = find_top_level(inner, ' as ')
        if k >= 0:
            self_ty = inner[:k].strip()
            trait = inner[k + 4:].strip()
        else:
            self_ty = inner.strip()
        if rest.startswith('::'):
            rest = rest[2:]
        segs = top_level_split(rest, '::')
    else:
        segs = top_level_split(path, '::')
    out = []
    ty_gen = ()
    for s in segs:
        if s.startswith('<impl '):
            out.append(strip_generics(s[6:-1].strip()) if not s[6:-1].strip().startswith('[') else '[]')
        elif s.startswith('<'):
            gen = tuple(x.strip() for x in top_level_split(s[1:-1], ', '))
        else:
            ty_gen = gen          # generics of the segment before this one (the type for `Type::<..>::method`)
            gen = ()
            out.append(s)
    parse_callee.last_type_generics = ty_gen
    return self_ty, trait, out, gen


# =========================================================================== the interpreter

class Engine:
    def __init__(self, prog, ctx, listener_ty='Screen', step_budget=2_000_000):
        self.p = prog
        self.ctx = ctx
        self.steps = 0
        self.blocks = 0
        self.step_budget = step_budget
        self.listener_ty = listener_ty
        self.py_listeners = {}     # type name -> python object with .event(name, args)
        self.functions_entered = set()
        self.call_hooks = {}       # MIR body name suffix -> fn(args)
        from . import stdlib
        self.std = stdlib

    # ---------------------------------------------------------------- constants
    def eval_const(self, text, frame):
        t = text
        c0 = t[0]
        if c0.isdigit() or (c0 == '-' and len(t) > 1 and t[1].isdigit()):
            m = re.match(r'^(-?\d+)_([a-z]+\d*)$', t)
            if m:
                return mk(m.group(2), int(m.group(1)))
            raise Unmodelled('const ' + t)
        if t == 'true':
            return True
        if t == 'false':
            return False
        if t == '()':
            return UNIT
        if c0 == '"':
            return Str.of(_unescape(t[1:-1]))
        if c0 == "'":
            s = _unescape(t[1:-1])
            return Int('char', ord(s))
        if t.startswith('b"'):
            bs = _unescape_bytes(t[2:-1])
            return Agg('[]', tuple(Int('u8', x) for x in bs))
        if t.startswith("b'"):
            bs = _unescape_bytes(t[2:-1])
            return Int('u8', bs[0])
        if c0 == '{':
            # {allocN: &TYPE}
            m = re.match(r'^\{alloc\d+: (.*)\}$', t)
            return StaticRef(type_base(m.group(1)))
        if t == 'RangeFull':
            return Agg('RangeFull', ())
        if t.startswith('ZeroSized: '):
            ty = t[11:]
            if ty.startswith('{closure@'):
                return Agg(ty, ())
            return FnItem(ty)
        if t.endswith('::INIT') and 'Lazy' in t:
            return Opaque('LazyInit')
        # promoted of the current body
        m = re.search(r'::promoted\[(\d+)\]$', t)
        if m:
            owner = frame.body.name
            name = owner + '::promoted[%s]' % m.group(1)
            b = self.p.consts.get(name)
            if b is None:
                b = self.p.find_const(t)
            if b is None:
                raise Unmodelled('promoted not found: %s (owner %s)' % (t, owner))
            return self.const_body_value(b)
        b = self.p.find_const(t)
        if b is not None:
            return self.const_body_value(b)
        m = re.match(r'^(\w+)::(MAX|MIN)$', t)
        if m and m.group(1) in BITS:
            lo, hi = _range(m.group(1))
            return Int(m.group(1), hi if m.group(2) == 'MAX' else lo)
        raise Unmodelled('const ' + t)

    def const_body_value(self, b):
        cache = self.p.const_cache
        if b.name in cache:
            return cache[b.name]
        if b.const_value is not None:
            dummy = Frame(b, {})
            v = self.eval_const(b.const_value[1], dummy)
        else:
            # run concretely with a throw-away engine (no symbolic state involved)
            sub = Engine(self.p, Ctx(), self.listener_ty)
            fr = Frame(b, {})
            v = sub.run([fr])
            # a const of reference type returns a Ref into the dead frame: keep the frame alive (fine)
        cache[b.name] = v
        return v

    # ---------------------------------------------------------------- places
    def resolve(self, fr, place):
        """-> Ref to the place (base, path)."""
        base = fr
        path = (place[1],)
        rng = None
        for pr in place[2]:
            k = pr[0]
            if k == 'deref':
                v = base.locals[path[0]]
                for s in path[1:]:
                    v = nav_get(v, s)
                tv = type(v)
                if tv is Ref:
                    base, path, rng = v.base, v.path, v.rng
                elif tv is Guard:
                    base, path = v.mref.base, v.mref.path + (1,)
                elif tv is ArcV:
                    base, path = v.cell, (0,)
                # else: inline Box / by-value &str: stay
            elif k == 'field':
                path = path + (pr[1],)
            elif k == 'downcast':
                path = path + (('dc', pr[1]),)
            elif k == 'index':
                iv = fr.locals[pr[1]]
                i = iv.v
                if type(i) is not int:
                    i = ('sym', iv)
                elif rng is not None:
                    i += rng[0]
                path = path + (i,)
            elif k == 'cindex':
                i = pr[1]
                if i < 0:
                    # ConstantIndex from the end (slice patterns `[.., x]`)
                    cur = self.load(Ref(base, path))
                    n = (rng[1] - rng[0]) if rng is not None else len(cur.f if type(cur) is Agg else cur.items)
                    i = n + i
                if rng is not None:
                    i += rng[0]
                path = path + (i,)
            else:
                raise Unmodelled('projection %r' % (pr,))
        return Ref(base, path, rng)

    def read_place(self, fr, place):
        if not place[2]:
            return fr.locals[place[1]]
        r = self.resolve(fr, place)
        return self.load(r)

    def load(self, r):
        v = r.base.locals[r.path[0]]
        for s in r.path[1:]:
            if type(s) is tuple and s[0] == 'sym':
                v = self.sym_index(v, s[1])
            else:
                v = nav_get(v, s)
        return v

    def sym_index(self, seq, iv):
        """Read seq[iv] for a symbolic index: fork-free for arrays of Int (ite chain / z3 array)."""
        items = seq.f if type(seq) is Agg else seq.items
        n = len(items)
        if n == 0:
            raise Panic('index out of bounds')
        if all(type(x) is Int and type(x.v) is int for x in items):
            ty = items[0].ty
            # tables that are the identity except for a few entries (Latin-1, DEC graphics): an if-then-else
            # chain over the exceptions is far cheaper for the solver than an array select
            exc = [(k, x.v) for k, x in enumerate(items) if x.v != k]
            if len(exc) <= 64 and BITS[ty] <= 64:
                ib = bv(iv)
                w = BITS[ty]
                isz = ib.size()
                base = ib if isz == w else (z3.Extract(w - 1, 0, ib) if isz > w else z3.ZeroExt(w - isz, ib))
                r = base
                for k, val in exc:
                    r = z3.If(ib == z3.BitVecVal(k, isz), z3.BitVecVal(val, w), r)
                return Int(ty, r)
            arr = self.p.const_cache.get(('z3arr', id(seq)))
            if arr is None:
                arr = z3.K(z3.BitVecSort(64), z3.BitVecVal(0, BITS[ty]))
                for k, x in enumerate(items):
                    arr = z3.Store(arr, z3.BitVecVal(k, 64), z3.BitVecVal(x.v, BITS[ty]))
                self.p.const_cache[('z3arr', id(seq))] = arr
                self.p.const_cache[('z3arr_keep', id(seq))] = seq
            return Int(ty, z3.Select(arr, bv(iv)))
        i = self.ctx.concretize(bv(iv))
        if i >= n:
            raise Panic('index out of bounds: the length is %d but the index is %d' % (n, i))
        return items[i]

    def store(self, r, nv):
        for s in r.path:
            if type(s) is tuple and s[0] == 'sym':
                # concretize the index on store
                i = self.ctx.concretize(bv(s[1]))
                r = Ref(r.base, tuple(i if x is s else x for x in r.path), r.rng)
                break
        store(r, nv)

    # ---------------------------------------------------------------- operands / rvalues
    def operand(self, fr, op):
        k = op[0]
        if k == 'copy' or k == 'move':
            pl = op[1]
            if not pl[2]:
                return fr.locals[pl[1]]
            return self.load(self.resolve(fr, pl))
        if k == 'const':
            return self.eval_const(op[1], fr)
        if k == 'fn':
            return FnItem(op[1])
        raise Unmodelled('operand %r' % (op,))

    def rvalue(self, fr, rv, dest_ty=None):
        k = rv[0]
        if k == 'use':
            return self.operand(fr, rv[1])
        if k == 'ref' or k == 'rawptr':
            pl = rv[2]
            if pl[2] and pl[2][-1][0] == 'deref':
                inner = ('place', pl[1], pl[2][:-1])
                ptr = self.read_place(fr, inner)
                tp = type(ptr)
                if tp is Ref:
                    return ptr
                if tp is Str or tp is SChoice or (tp is Agg and ptr.name == '[]' and not rv[1]):
                    return ptr
                if tp is Guard:
                    return Ref(ptr.mref.base, ptr.mref.path + (1,))
                if tp is ArcV:
                    return Ref(ptr.cell, (0,))
                return self.resolve(fr, inner)
            return self.resolve(fr, pl)
        if k == 'bin':
            a = self.operand(fr, rv[2])
            b = self.operand(fr, rv[3])
            if type(a) is Ref or type(b) is Ref:
                raise Unmodelled('pointer arithmetic/comparison')
            return binop(rv[1], a, b)
        if k == 'un':
            a = self.operand(fr, rv[2])
            if rv[1] == 'Not':
                if type(a) is Int:
                    if type(a.v) is int:
                        return mk(a.ty, ~a.v)
                    return Int(a.ty, ~a.v)
                return bool_not(a)
            if rv[1] == 'Neg':
                if type(a.v) is int:
                    return mk(a.ty, -a.v)
                return Int(a.ty, -a.v)
            if rv[1] == 'PtrMetadata':
                return Int('usize', self.seq_len(a))
            raise Unmodelled('unop ' + rv[1])
        if k == 'cast':
            a = self.operand(fr, rv[1])
            kind = rv[3]
            if kind == 'IntToInt':
                return int_cast(a, rv[2])
            if kind.startswith('PointerCoercion') or kind in ('PtrToPtr', 'Transmute'):
                if kind == 'Transmute' and type(a) is not Ref:
                    raise Unmodelled('transmute')
                return a
            raise Unmodelled('cast kind ' + kind)
        if k == 'discr':
            v = self.read_place(fr, rv[1])
            if type(v) is Enum:
                return Int('isize', v.disc)
            raise Unmodelled('discriminant of %r' % (v,))
        if k == 'len':
            return Int('usize', self.seq_len(self.read_place(fr, rv[1])))
        if k == 'agg':
            vals = [self.operand(fr, o) for o in rv[3]]
            ak = rv[1]
            if ak == 'tuple':
                return Agg('tuple', vals)
            if ak == 'array':
                return Agg('[]', vals)
            name = rv[2]
            if ak == 'struct':
                if name.startswith('{closure@'):
                    if name.endswith('#LOSSY'):
                        raise Unmodelled('closure aggregate printed lossily by rustc and not reconstructible: ' + name)
                    return Agg(name, vals)
                return Agg(type_base(name), vals)
            # variant or unit struct
            _, _, segs, _ = parse_callee(name)
            if len(segs) >= 2:
                ety = strip_generics(segs[-2])
                vs = VARIANTS.get(ety)
                if vs and segs[-1] in vs:
                    idx = vs.index(segs[-1])
                    return Enum(ety, idx, {idx: tuple(vals)} if vals else None)
            return Agg(type_base(name), vals)
        if k == 'repeat':
            v = self.operand(fr, rv[1])
            cnt = rv[2]
            if cnt.startswith('const '):
                cnt = cnt[6:]
            m = re.match(r'^(\d+)(?:_usize)?$', cnt)
            if m:
                n = int(m.group(1))
            else:
                cv = self.eval_const(cnt, fr)
                n = cv.v
            return Agg('[]', (v,) * n)
        raise Unmodelled('rvalue %r' % (rv,))

    def seq_len(self, v):
        """Length (python int) of a slice-like value or reference."""
        if type(v) is Ref and v.rng is not None:
            return v.rng[1] - v.rng[0]
        v = deref_all(v)
        tv = type(v)
        if tv is Agg:
            return len(v.f)
        if tv is VecV:
            return len(v.items)
        if tv is Str:
            return self.std.str_len(self, v).v
        raise Unmodelled('len of %r' % (v,))

    # ---------------------------------------------------------------- call resolution
    def resolve_call(self, path, tsubst):
        key = (path, tuple(sorted(tsubst.items())) if tsubst else ())
        t = self.p.call_cache.get(key)
        if t is not None:
            return t
        t = self._resolve_call(path, tsubst or {})
        self.p.call_cache[key] = t
        return t

    def _resolve_call(self, path, tsubst):
        self_ty, trait, segs, gen = parse_callee(path)
        method = segs[-1]
        if self_ty is not None:
            st = self_ty
            if st in tsubst:
                st = tsubst[st]
            sb = type_base(st)
            tb = type_base(trait) if trait else None
            if len(segs) == 1:
                b = self.p.impl_index.get((sb, tb, method))
                if b is not None:
                    return CallTarget('mir', body=b, tsubst={}, raw=path)
                if tb is not None:
                    d = self.p.by_name.get(tb + '::' + method)
                    if d is not None:
                        return CallTarget('mir', body=d, tsubst={'Self': sb}, raw=path)
                if tb == 'ParserListener' and sb in self.py_listeners:
                    return CallTarget('pylistener', method=method, self_ty=sb, raw=path)
                if tb == 'Deref' and method == 'deref' and sb in self.p.lazy_init:
                    return CallTarget('lazy', self_ty=sb, raw=path)
                return CallTarget('std', key='%s::%s' % (tb, method), self_ty=st, generics=gen, raw=path)
            # e.g. <X as Deref>::deref::__stability -- not needed
            return CallTarget('std', key='%s::%s' % (tb, '::'.join(segs)), self_ty=st, generics=gen, raw=path)
        if len(segs) >= 2:
            tyb = strip_generics(segs[-2])
            b = self.p.impl_index.get((tyb, None, method))
            if b is not None:
                # keep the caller's substitution for generic impls (Parser<T>)
                return CallTarget('mir', body=b, tsubst=dict(tsubst), raw=path)
            tg = parse_callee.last_type_generics
            full = segs[-2] + ('<' + ', '.join(tg) + '>' if tg else '')
            return CallTarget('std', key='%s::%s' % (tyb, method), self_ty=full, generics=gen, raw=path)
        b = self.p.by_name.get(method)
        if b is not None:
            return CallTarget('mir', body=b, tsubst={}, raw=path)
        return CallTarget('std', key=method, generics=gen, raw=path)

    # ---------------------------------------------------------------- running
    def new_frame(self, body, args, tsubst):
        fr = Frame(body, tsubst)
        if len(args) != body.nargs:
            raise Unmodelled('arity mismatch calling %s: %d vs %d' % (body.name, len(args), body.nargs))
        for (idx, _), a in zip(body.args, args):
            fr.locals[idx] = a
        self.functions_entered.add(body.name)
        return fr

    def call_body(self, body, args, tsubst=None):
        """Run a MIR body to completion (nested run loop) and return its value."""
        return self.run([self.new_frame(body, args, tsubst or {})])

    def call_path(self, path, args, tsubst=None):
        t = self.resolve_call(path, tsubst or {})
        if t.kind == 'mir':
            return self.call_body(t.body, args, t.tsubst)
        return self.call_std(t, args, None, None)

    def call_closure(self, clo, args, tsubst=None):
        """Call a closure value / fn item with the given argument list (already untupled)."""
        clo_v = deref_all(clo)
        if type(clo_v) is FnItem:
            return self.call_path(clo_v.path, args, tsubst)
        if type(clo_v) is Agg and clo_v.name.startswith('{closure@'):
            b = self.p.closure_index.get(clo_v.name)
            if b is None:
                raise Unmodelled('closure body not found ' + clo_v.name)
            # first parameter: by value, & or &mut of the environment
            t0 = b.args[0][1]
            if t0.startswith('&'):
                env = clo if type(clo) is Ref else Ref(Cell(clo_v), (0,))
            else:
                env = clo_v
            return self.call_body(b, [env] + list(args), tsubst or {})
        raise Unmodelled('call of non-closure %r' % (clo_v,))

    def call_std(self, t, args, fr, dest_ty):
        fn = self.std.TABLE.get(t.key)
        if fn is None:
            fn = self.std.lookup_fallback(t)
        if fn is None:
            raise Unmodelled('unmodelled callee %s  [key %s]' % (t.raw, t.key))
        return fn(self, t, args, fr, dest_ty)

    def lazy_value(self, name):
        cache = self.p.lazy_cache
        c = cache.get(name)
        if c is None:
            b = self.p.lazy_init[name]
            sub = Engine(self.p, Ctx(), self.listener_ty)
            v = sub.run([Frame(b, {})])
            c = Cell(v, tag='lazy:' + name)
            cache[name] = c
        return Ref(c, (0,))

    def run(self, stack):
        """Execute until the bottom frame of `stack` returns; returns its value.
        Raises YieldSignal when a coroutine body yields (stack is left suspended)."""
        ctx = self.ctx
        base_depth = 0
        while True:
            fr = stack[-1]
            blk = fr.body.blocks.get(fr.bb)
            if blk is None:
                raise Unmodelled('missing block bb%d in %s (cleanup path?)' % (fr.bb, fr.body.name))
            stmts, term = blk
            self.blocks += 1
            self.steps += len(stmts) + 1
            if self.steps > self.step_budget:
                raise Budget('step budget exceeded in %s' % fr.body.name)
            for st in stmts:
                if st[0] == 'assign':
                    pl = st[1]
                    v = self.rvalue(fr, st[2])
                    if not pl[2]:
                        fr.locals[pl[1]] = v
                    else:
                        self.store(self.resolve(fr, pl), v)
                elif st[0] == 'setdiscr':
                    r = self.resolve(fr, st[1])
                    old = self.load(r)
                    self.store(r, Enum(old.ty, st[2], old.pay))
            tk = term[0]
            if tk == 'goto':
                fr.bb = term[1]
            elif tk == 'switch':
                v = self.operand(fr, term[1])
                fr.bb = self.switch_target(v, term[2], term[3])
            elif tk == 'call':
                self.do_call(stack, fr, term)
            elif tk == 'return':
                v = fr.locals[0]
                stack.pop()
                if not stack:
                    return v
                caller = stack[-1]
                dest, ret_bb = caller.pending
                caller.pending = None
                if ret_bb is None:
                    raise Unmodelled('return into diverging call')
                if dest is not None:
                    if not dest[2]:
                        caller.locals[dest[1]] = v
                    else:
                        self.store(self.resolve(caller, dest), v)
                caller.bb = ret_bb
            elif tk == 'assert':
                c = self.operand(fr, term[1])
                if type(c) is Int:
                    c = int_eq(c, 1)
                ok_ = c if term[2] else bool_not(c)
                if ctx.branch(ok_):
                    fr.bb = term[5]
                else:
                    raise Panic(term[3].strip('"'))
            elif tk == 'drop':
                v = self.read_place(fr, term[1])
                if type(v) is Guard:
                    self.std.unlock_guard(self, v)
                fr.bb = term[2]
            elif tk == 'unreachable':
                raise Unmodelled('reached `unreachable` in %s bb%d' % (fr.body.name, fr.bb))
            else:
                raise Unmodelled('terminator %r' % (term,))

    def switch_target(self, v, cases, other):
        ctx = self.ctx
        if type(v) is bool:
            iv = 1 if v else 0
            for c, bb in cases:
                if c == iv:
                    return bb
            return other
        if isinstance(v, z3.BoolRef):
            conds = []
            tg = []
            seen = set()
            for c, bb in cases:
                conds.append(v if c == 1 else (z3.Not(v) if c == 0 else False))
                tg.append(bb)
                seen.add(c)
            if other is not None:
                if 0 not in seen and 1 not in seen:
                    conds.append(True)
                elif 0 not in seen:
                    conds.append(z3.Not(v))
                elif 1 not in seen:
                    conds.append(v)
                else:
                    conds.append(False)
                tg.append(other)
            return tg[ctx.choose(conds)]
        x = v.v
        if type(x) is int:
            if v.ty in SIGNED and x < 0:
                x &= (1 << BITS[v.ty]) - 1
            for c, bb in cases:
                if c == x:
                    return bb
            if other is None:
                raise Unmodelled('switchInt fell through')
            return other
        bits = x.size()
        conds = [x == z3.BitVecVal(c, bits) for c, _ in cases]
        tg = [bb for _, bb in cases]
        if other is not None:
            conds.append(z3.And([x != z3.BitVecVal(c, bits) for c, _ in cases]) if cases else True)
            tg.append(other)
        return tg[ctx.choose(conds)]

    def do_call(self, stack, fr, term):
        _, dest, func, argops, ret_bb = term
        args = [self.operand(fr, a) for a in argops]
        if func[0] == 'fn':
            path = func[1]
        else:
            fv = self.operand(fr, func)
            if type(fv) is FnItem:
                path = fv.path
            else:
                # call through a closure value: arguments are given untupled already
                v = self.call_closure(fv, args, fr.tsubst)
                self.finish_call(fr, dest, ret_bb, v)
                return
        t = self.resolve_call(path, fr.tsubst)
        if t.kind == 'mir':
            if self.call_hooks:
                for suf, hook in self.call_hooks.items():
                    if t.body.name.endswith(suf):
                        r = hook(args)
                        if type(r) is tuple and r and r[0] == 'skip':
                            self.finish_call(fr, dest, ret_bb, r[1])
                            return
            fr.pending = (dest, ret_bb)
            stack.append(self.new_frame(t.body, args, t.tsubst if t.tsubst is not None else {}))
            return
        if t.kind == 'lazy':
            self.finish_call(fr, dest, ret_bb, self.lazy_value(t.self_ty))
            return
        if t.kind == 'pylistener':
            lst = self.py_listeners[t.self_ty]
            v = lst.event(self, t.method, args)
            self.finish_call(fr, dest, ret_bb, v if v is not None else UNIT)
            return
        dest_ty = None
        if dest is not None and not dest[2]:
            dest_ty = fr.body.local_tys.get(dest[1])
        if t.key == 'Scope::yield_':
            # suspend: the value goes to the pending send; resumption stores into dest
            fr.pending = (dest, ret_bb)
            raise YieldSignal(args[1])
        v = self.call_std(t, args, fr, dest_ty)
        self.finish_call(fr, dest, ret_bb, v)

    def finish_call(self, fr, dest, ret_bb, v):
        if ret_bb is None:
            raise Unmodelled('diverging std call returned: %r' % (v,))
        if dest is not None:
            if not dest[2]:
                fr.locals[dest[1]] = v
            else:
                self.store(self.resolve(fr, dest), v)
        fr.bb = ret_bb

    # ---------------------------------------------------------------- coroutine support
    def co_resume(self, co, para):
        """generator-rs semantics: run the coroutine until its next yield_; returns the yielded value."""
        if co.done:
            raise Panic('send to a finished generator')
        if not co.started:
            co.started = True
            body = self.p.closure_index[co.closure.name]
            scope = Opaque('Scope', co)
            co.stack = [self.new_frame(body, [co.closure, scope], co.tsubst)]
        else:
            fr = co.stack[-1]
            dest, ret_bb = fr.pending
            fr.pending = None
            self.finish_call(fr, dest, ret_bb, some(para))
        try:
            v = self.run(co.stack)
        except YieldSignal as y:
            return y.value
        co.done = True
        return v


def _unescape(s):
    out = []
    i = 0
    n = len(s)
    while i < n:
        c = s[i]
        if c != '\\':
            out.append(c)
            i += 1
            continue
        d = s[i + 1]
        if d == 'n':
            out.append('\n'); i += 2
        elif d == 't':
            out.append('\t'); i += 2
        elif d == 'r':
            out.append('\r'); i += 2
        elif d == '0':
            out.append('\0'); i += 2
        elif d == 'x':
            out.append(chr(int(s[i + 2:i + 4], 16))); i += 4
        elif d == 'u':
            e = s.index('}', i)
            out.append(chr(int(s[i + 3:e], 16))); i = e + 1
        else:
            out.append(d); i += 2
    return ''.join(out)


def _unescape_bytes(s):
    out = []
    i = 0
    n = len(s)
    while i < n:
        c = s[i]
        if c != '\\':
            out.extend(c.encode('utf-8'))
            i += 1
            continue
        d = s[i + 1]
        if d == 'n':
            out.append(10); i += 2
        elif d == 't':
            out.append(9); i += 2
        elif d == 'r':
            out.append(13); i += 2
        elif d == '0':
            out.append(0); i += 2
        elif d == 'x':
            out.append(int(s[i + 2:i + 4], 16)); i += 4
        else:
            out.append(ord(d)); i += 2
    return out

