"""check <Cxx> [--tier quick|thorough] [--replay FILE] [--workers N] [--only GLOB] [--max-paths N]"""
import argparse
import fnmatch
import importlib
import json
import os
import sys
import time

from . import harness, build
from .harness import G


def write_evidence(prop, ev, scratch=False):
    # development runs (a job filter, or a scratch copy of the repository under test) must not overwrite the
    # evidence of the registered commands
    d = os.path.join(build.CACHE, 'evidence-scratch') if scratch else os.path.join(harness.VERIF, 'evidence')
    os.makedirs(d, exist_ok=True)
    p = os.path.join(d, prop + '.json')
    tmp = p + '.tmp%d' % os.getpid()
    with open(tmp, 'w') as f:
        json.dump(ev, f, indent=1, sort_keys=True, default=str)
    os.replace(tmp, p)
    return p


def do_replay(path):
    info = harness.setup(need_release=True)
    with open(path) as f:
        w = json.load(f)
    for i, sc in enumerate(w.get('scenarios') or [w['scenario']]):
        print('scenario %d: %s' % (i, json.dumps(sc.get('steps'))[:300]))
        for prof in ('dev', 'release'):
            nat = harness.native(prof).run(sc)
            print('  %s: %s' % (prof, json.dumps({k: nat.get(k) for k in ('ok', 'panic', 'hang', 'abort')})))
            if nat.get('ok') and nat.get('out'):
                print('     final state:', json.dumps(nat['out'][-1])[:600])
    print('expected by the check:', w.get('label'), '|', json.dumps(w.get('what'))[:400])
    return 0


def main(argv=None):
    ap = argparse.ArgumentParser()
    ap.add_argument('prop')
    ap.add_argument('--tier', default=os.environ.get('VERIF_TIER', 'quick'))
    ap.add_argument('--replay')
    ap.add_argument('--workers', type=int, default=int(os.environ.get('VERIF_WORKERS', '0') or 0))
    ap.add_argument('--only')
    ap.add_argument('--max-paths', type=int, default=0)
    ap.add_argument('--no-selftest', action='store_true')
    a = ap.parse_args(argv)
    prop = a.prop.upper()
    if a.replay:
        return do_replay(a.replay)
    tier = a.tier if a.tier in ('quick', 'thorough') else 'quick'
    t0 = time.time()
    info = harness.setup(tier)
    mod = importlib.import_module('mirsym.props.' + prop.lower())
    G['validate_rate'] = getattr(mod, 'VALIDATE_RATE', {}).get(tier, 0.05 if tier == 'quick' else 0.02)
    G['xcheck_rate'] = float(os.environ.get('VERIF_XCHECK', '0.002' if tier == 'quick' else '0.004'))
    problems = []
    # ---- encoding validation on the repository-style scenarios
    st_agree = 0
    if not a.no_selftest:
        from . import selftest
        n, fails = selftest.run_all(G['prog'], G['L'], harness.native('dev'))
        st_agree = n
        for sc, d in fails:
            problems.append('selftest disagreement on %s: %s' % (json.dumps(sc['steps'])[:120], d[:300]))
        harness._native.clear()
    extra_info = {}
    if hasattr(mod, 'prelude'):
        for b in mod.prelude(extra_info):
            problems.append('prelude: ' + b)
    jobs = mod.jobs(tier)
    if a.only:
        jobs = [j for j in jobs if fnmatch.fnmatch(j.name, a.only)]
    # wall-clock cap per tier; what was not explored when it expires is stated in the evidence
    # (exhaustive=false, unexplored_subtrees) and the verdict covers what was explored
    budget_s = getattr(mod, 'TIME_BUDGET', {}).get(tier) or (1200 if tier == 'quick' else 2700)
    budget_s = int(os.environ.get('VERIF_BUDGET_S', budget_s))
    deadline = time.time() + budget_s

    last = [time.time()]

    def progress(agg):
        if time.time() - last[0] > 30:
            last[0] = time.time()
            sys.stderr.write('[%s] %d paths, %s, %.0fs\n' % (prop, agg['paths'], agg['status_counts'], time.time() - t0))

    agg = harness.explore(jobs, workers=a.workers or None, max_paths=a.max_paths or None, deadline=deadline,
                          progress=progress)
    # ---- classify
    confirmed = []
    unconfirmed = []
    for w in agg['witnesses']:
        if 'scenario' in w and not w.get('replay_agrees', False):
            unconfirmed.append(w)
        else:
            confirmed.append(w)
    for p in agg['problems']:
        problems.append('%s in %s: %s' % (p['status'], p['job'], str(p.get('detail'))[:400]))
    for w in unconfirmed:
        problems.append('witness not reproduced natively in %s: %s' % (w['job'], w.get('replay_diff', '')[:300]))
    vac = [j.name for j in jobs if agg['per_job'].get(j.name, {}).get('paths', 0) == 0]
    if vac and agg['complete']:
        problems.append('vacuous jobs (no feasible path): %s' % vac)
    notes = []
    if not agg['complete']:
        notes.append('time budget of %ds reached: %d queued subtrees were not explored; the verdict covers the %d paths explored'
                     % (budget_s, agg.get('unexplored', 0), agg['paths']))
    # ---- known findings
    known = [k for k in G['known'] if k['property'] == prop]
    for k in known:
        if k.get('status', 'open') == 'open':
            hits = agg['known_hits'].get(k['id'], 0)
            print('KNOWN-FINDING: property=%s %s [%s; reproduced on %d paths]' % (prop, k['what'], k['id'], hits))
    # ---- de-duplicate witnesses by label+job for reporting
    rep_dir = os.path.join(harness.VERIF, 'evidence', 'replays')
    os.makedirs(rep_dir, exist_ok=True)
    seen = set()
    nviol = 0
    for w in confirmed:
        key = (w['job'], w['label'])
        if key in seen:
            continue
        seen.add(key)
        nviol += 1
        rp = os.path.join(rep_dir, '%s-%d.json' % (prop, nviol))
        with open(rp, 'w') as f:
            json.dump(w, f, indent=1, default=str)
        print('VIOLATION property=%s replay=%s' % (prop, rp))
        print('   job=%s  %s' % (w['job'], w['label']))
        print('   witness: %s' % json.dumps(w.get('what'), default=str)[:500])
    wall = time.time() - t0
    meta = getattr(mod, 'META', {})
    ev = {
        'property_id': prop, 'tier': tier, 'seed': G['seed'], 'level': 'model_checking',
        'wall_s': round(wall, 2), 'violations': nviol,
        'coverage': {
            'states': max(agg['paths'], 0), 'transitions': agg['blocks'],
            'traces_validated_against_impl': agg['validated'] + st_agree + len(confirmed),
            'samples': agg['samples'][:12] or [{'note': 'no sample'}],
            'exhaustive': bool(agg['complete'] and not problems),
            'unexplored_subtrees': agg.get('unexplored', 0), 'notes': notes,
            'symbolic_paths_explored': agg['paths'], 'path_outcomes': agg['status_counts'],
            'mir_statements_executed': agg['steps'], 'solver_queries': agg['queries'],
            'solver_time_s': round(agg['solver_s'], 2), 'jobs': len(jobs),
            'paths_per_job': {k: v['paths'] for k, v in agg['per_job'].items()},
            'functions_encoded_requested': meta.get('functions', []),
            'mir_bodies_entered': agg['funcs'],
            'bounds': meta.get('bounds', ''), 'outside_claim': meta.get('outside', ''),
            'selftest_scenarios_agreeing': st_agree,
            'native_replays_of_passing_paths': agg['validated'],
            'queries_cross_checked_with_cvc5_and_z3_4_8_12': agg['xchecked'],
            'mir_dump': {'bodies': info['mir_bodies'], 'seconds': round(info['mir_seconds'], 1), 'cached': info['mir_cached']},
            'known_findings_reproduced': agg['known_hits'],
            'prelude': extra_info,
            'problems': problems,
        },
        'assumptions': [
            'rustc nightly MIR dump of /repo (dev pipeline, overflow checks on) is what ships',
            'mirsym MIR semantics and library summaries (DESIGN.md 3.4), validated differentially each run',
            'generator-rs yield/send semantics; std/hashbrown/encoding_rs/unicode-* internals',
            'z3 answers (bit-vector theory)',
        ],
    }
    write_evidence(prop, ev, scratch=bool(a.only) or build.REPO != '/repo')
    print('%s tier=%s: %d paths, %d jobs, outcomes=%s, %d solver queries (%.1fs), %d native validations, wall %.1fs'
          % (prop, tier, agg['paths'], len(jobs), agg['status_counts'], agg['queries'], agg['solver_s'],
             agg['validated'], wall))
    for n_ in notes:
        print('NOTE: ' + n_)
    for p in problems[:10]:
        print('INCONCLUSIVE: ' + p)
    if nviol:
        return 1
    if problems:
        return 2
    return 0


if __name__ == '__main__':
    sys.exit(main())
